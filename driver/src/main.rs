// llg-facts: rustc_private driver that exports the type-checked program (MIR bodies with
// resolved callees, ADT layouts with structured field types, statics, trait-impl links)
// of the crate being compiled as JSON lines. It is injected with RUSTC_WORKSPACE_WRAPPER
// under `cargo +nightly check`, so it sees exactly the real build (features, cfgs, macros).
//
// Nothing is decided here: the rule evaluators under /verif/rules read these facts.
#![feature(rustc_private)]
#![allow(clippy::all)]

extern crate rustc_abi;
extern crate rustc_data_structures;
extern crate rustc_driver;
extern crate rustc_hir;
extern crate rustc_infer;
extern crate rustc_interface;
extern crate rustc_trait_selection;
extern crate rustc_middle;
extern crate rustc_span;

use rustc_driver::Compilation;
use rustc_hir::def::DefKind;
use rustc_hir::def_id::{DefId, LOCAL_CRATE};
use rustc_middle::mir::{
    self, AggregateKind, AssertKind, BinOp, Body, BorrowKind, CastKind, ConstOperand, Operand,
    Place, ProjectionElem, Rvalue, StatementKind, TerminatorKind, UnOp,
};
use rustc_middle::ty::print::{
    with_no_trimmed_paths, with_no_visible_paths, with_resolve_crate_name,
};
use rustc_middle::ty::{self, Instance, Ty, TyCtxt, TypeVisitableExt, TypingEnv};
use rustc_infer::infer::TyCtxtInferExt;
use rustc_span::{sym, ExpnKind, Span};
use rustc_trait_selection::infer::InferCtxtExt;
use std::fmt::Write as _;
use std::io::Write as _;

fn esc(s: &str) -> String {
    let mut o = String::with_capacity(s.len() + 2);
    o.push('"');
    for c in s.chars() {
        match c {
            '"' => o.push_str("\\\""),
            '\\' => o.push_str("\\\\"),
            '\n' => o.push_str("\\n"),
            '\r' => o.push_str("\\r"),
            '\t' => o.push_str("\\t"),
            c if (c as u32) < 0x20 => {
                let _ = write!(o, "\\u{:04x}", c as u32);
            }
            c => o.push(c),
        }
    }
    o.push('"');
    o
}

fn pstr<F: FnOnce() -> String>(f: F) -> String {
    with_no_visible_paths!(with_resolve_crate_name!(with_no_trimmed_paths!(f())))
}

struct Cx<'tcx> {
    tcx: TyCtxt<'tcx>,
    krate: String,
}

impl<'tcx> Cx<'tcx> {
    fn path(&self, did: DefId) -> String {
        let s = pstr(|| self.tcx.def_path_str(did));
        self.qualify(did, s)
    }

    fn qualify(&self, did: DefId, s: String) -> String {
        // local items are printed with the real crate name by with_resolve_crate_name; keep a
        // fallback for printers that still omit it.
        if did.is_local() && !s.starts_with(&self.krate) && !s.starts_with('<') {
            format!("{}::{}", self.krate, s)
        } else {
            s
        }
    }

    fn path_args(&self, did: DefId, args: ty::GenericArgsRef<'tcx>) -> String {
        pstr(|| self.tcx.def_path_str_with_args(did, args))
    }

    fn tystr(&self, t: Ty<'tcx>) -> String {
        pstr(|| format!("{}", t))
    }

    fn line(&self, sp: Span) -> (String, usize) {
        let sp = sp.source_callsite();
        let sm = self.tcx.sess.source_map();
        let loc = sm.lookup_char_pos(sp.lo());
        let f = pstr(|| format!("{}", loc.file.name.prefer_local_unconditionally()));
        (f, loc.line)
    }

    fn macros(&self, sp: Span) -> Vec<String> {
        let mut v = vec![];
        if !sp.from_expansion() {
            return v;
        }
        for e in sp.macro_backtrace().take(6) {
            match e.kind {
                ExpnKind::Macro(_, name) => v.push(name.to_string()),
                ExpnKind::Desugaring(k) => v.push(format!("desugar:{:?}", k)),
                ExpnKind::AstPass(_) => v.push("astpass".to_string()),
                ExpnKind::Root => {}
            }
        }
        if v.is_empty() {
            v.push("expansion".into());
        }
        v
    }

    fn span_json(&self, sp: Span) -> String {
        let (_, l) = self.line(sp);
        let m = self.macros(sp);
        if m.is_empty() {
            format!("\"l\":{}", l)
        } else {
            let ms: Vec<String> = m.iter().map(|x| esc(x)).collect();
            format!("\"l\":{},\"x\":[{}]", l, ms.join(","))
        }
    }

    // ---------------------------------------------------------------- structured types
    fn ty_json(&self, t: Ty<'tcx>, env: TypingEnv<'tcx>, depth: usize) -> String {
        if depth > 12 {
            return format!("{{\"k\":\"deep\",\"s\":{}}}", esc(&self.tystr(t)));
        }
        match t.kind() {
            ty::Bool | ty::Char | ty::Int(_) | ty::Uint(_) | ty::Float(_) | ty::Str | ty::Never => {
                format!("{{\"k\":\"prim\",\"n\":{}}}", esc(&self.tystr(t)))
            }
            ty::Adt(def, args) => {
                let mut a = vec![];
                for ga in args.iter() {
                    if let Some(at) = ga.as_type() {
                        a.push(self.ty_json(at, env, depth + 1));
                    }
                }
                let freeze = if t.has_param() || t.has_escaping_bound_vars() {
                    "null".to_string()
                } else {
                    let te = self.tcx.erase_and_anonymize_regions(t);
                    format!("{}", te.is_freeze(self.tcx, env))
                };
                format!(
                    "{{\"k\":\"adt\",\"n\":{},\"args\":[{}],\"freeze\":{}}}",
                    esc(&self.path(def.did())),
                    a.join(","),
                    freeze
                )
            }
            ty::Ref(_, it, m) => format!(
                "{{\"k\":\"ref\",\"mut\":{},\"t\":{}}}",
                m.is_mut(),
                self.ty_json(*it, env, depth + 1)
            ),
            ty::RawPtr(it, m) => format!(
                "{{\"k\":\"ptr\",\"mut\":{},\"t\":{}}}",
                m.is_mut(),
                self.ty_json(*it, env, depth + 1)
            ),
            ty::Slice(it) => format!("{{\"k\":\"slice\",\"t\":{}}}", self.ty_json(*it, env, depth + 1)),
            ty::Array(it, _) => {
                format!("{{\"k\":\"array\",\"t\":{}}}", self.ty_json(*it, env, depth + 1))
            }
            ty::Tuple(ts) => {
                let a: Vec<String> = ts.iter().map(|x| self.ty_json(x, env, depth + 1)).collect();
                format!("{{\"k\":\"tuple\",\"ts\":[{}]}}", a.join(","))
            }
            ty::Dynamic(preds, ..) => {
                let mut tr = vec![];
                for p in preds.iter() {
                    match p.skip_binder() {
                        ty::ExistentialPredicate::Trait(t) => tr.push(esc(&self.path(t.def_id))),
                        ty::ExistentialPredicate::AutoTrait(d) => tr.push(esc(&self.path(d))),
                        _ => {}
                    }
                }
                format!("{{\"k\":\"dyn\",\"traits\":[{}]}}", tr.join(","))
            }
            ty::FnPtr(..) => "{\"k\":\"fnptr\"}".to_string(),
            ty::Param(p) => format!("{{\"k\":\"param\",\"n\":{}}}", esc(p.name.as_str())),
            ty::Closure(d, _) => format!("{{\"k\":\"closure\",\"n\":{}}}", esc(&self.path(*d))),
            _ => format!("{{\"k\":\"other\",\"s\":{}}}", esc(&self.tystr(t))),
        }
    }

    // ---------------------------------------------------------------- MIR
    fn place_json(&self, body: &Body<'tcx>, p: &Place<'tcx>) -> String {
        let mut s = format!("[{}", p.local.as_usize());
        let mut pty = mir::PlaceTy::from_ty(body.local_decls[p.local].ty);
        for elem in p.projection.iter() {
            match elem {
                ProjectionElem::Deref => s.push_str(",\"*\""),
                ProjectionElem::Field(f, _) => {
                    let idx = f.as_usize();
                    match pty.ty.kind() {
                        ty::Adt(adt, _) => {
                            let v = match pty.variant_index {
                                Some(v) => adt.variant(v),
                                None => {
                                    if adt.is_enum() {
                                        adt.variant(rustc_abi::VariantIdx::from_usize(0))
                                    } else {
                                        adt.non_enum_variant()
                                    }
                                }
                            };
                            let name = v.fields[f].name.to_string();
                            let _ = write!(
                                s,
                                ",{{\"f\":{},\"n\":{},\"a\":{}}}",
                                idx,
                                esc(&name),
                                esc(&self.path(adt.did()))
                            );
                        }
                        ty::Closure(d, _) => {
                            let mut name = String::new();
                            if let Some(ld) = d.as_local() {
                                let caps = self.tcx.closure_captures(ld);
                                if let Some(c) = caps.get(idx) {
                                    name = c.to_string(self.tcx);
                                }
                            }
                            let _ = write!(s, ",{{\"f\":{},\"up\":{}}}", idx, esc(&name));
                        }
                        _ => {
                            let _ = write!(s, ",{{\"f\":{}}}", idx);
                        }
                    }
                }
                ProjectionElem::Index(l) => {
                    let _ = write!(s, ",{{\"i\":{}}}", l.as_usize());
                }
                ProjectionElem::ConstantIndex { offset, from_end, .. } => {
                    let _ = write!(s, ",{{\"ci\":{},\"fe\":{}}}", offset, from_end);
                }
                ProjectionElem::Subslice { from, to, from_end } => {
                    let _ = write!(s, ",{{\"sub\":[{},{}],\"fe\":{}}}", from, to, from_end);
                }
                ProjectionElem::Downcast(name, vi) => {
                    let n = name.map(|x| x.to_string()).unwrap_or_default();
                    let _ = write!(s, ",{{\"dc\":{},\"v\":{}}}", esc(&n), vi.as_usize());
                }
                _ => s.push_str(",\"?\""),
            }
            pty = pty.projection_ty(self.tcx, elem);
        }
        s.push(']');
        s
    }

    fn const_json(&self, c: &ConstOperand<'tcx>, env: TypingEnv<'tcx>, owner: DefId) -> String {
        let cty = c.const_.ty();
        match cty.kind() {
            ty::FnDef(did, args) => {
                let (res, virt) = self.resolve(owner, env, *did, args);
                return format!(
                    "{{\"fn\":{},\"raw\":{},\"virt\":{}}}",
                    esc(&res),
                    esc(&self.path(*did)),
                    virt
                );
            }
            ty::Closure(did, _) => {
                return format!("{{\"closure\":{}}}", esc(&self.path(*did)));
            }
            _ => {}
        }
        let disp = pstr(|| format!("{}", c.const_));
        let mut s = format!("{{\"k\":{},\"ty\":{}", esc(&disp), esc(&self.tystr(cty)));
        if cty.is_integral() || cty.is_bool() || cty.is_char() {
            if let Some(si) = c.const_.try_eval_scalar_int(self.tcx, env) {
                let bits = si.to_bits_unchecked();
                let _ = write!(s, ",\"iv\":\"{}\",\"sz\":{}", bits, si.size().bytes());
            }
        }
        if let ty::Ref(_, inner, _) = cty.kind() {
            if inner.is_str() {
                if let mir::Const::Val(v, _) = c.const_ {
                    if let Some(b) = v.try_get_slice_bytes_for_diagnostics(self.tcx) {
                        let _ = write!(s, ",\"str\":{}", esc(&String::from_utf8_lossy(b)));
                    }
                }
            }
        }
        s.push('}');
        s
    }

    fn op_json(&self, body: &Body<'tcx>, o: &Operand<'tcx>, env: TypingEnv<'tcx>, owner: DefId) -> String {
        match o {
            Operand::Copy(p) => format!("{{\"c\":{}}}", self.place_json(body, p)),
            Operand::Move(p) => format!("{{\"m\":{}}}", self.place_json(body, p)),
            Operand::Constant(c) => self.const_json(c, env, owner),
            #[allow(unreachable_patterns)]
            _ => "{\"k\":\"?\"}".to_string(),
        }
    }

    fn resolve(
        &self,
        _owner: DefId,
        env: TypingEnv<'tcx>,
        did: DefId,
        args: ty::GenericArgsRef<'tcx>,
    ) -> (String, bool) {
        match Instance::try_resolve(self.tcx, env, did, args) {
            Ok(Some(i)) => {
                let virt = matches!(i.def, ty::InstanceKind::Virtual(..));
                (self.path(i.def_id()), virt)
            }
            _ => (self.path(did), false),
        }
    }

    fn rvalue_json(&self, body: &Body<'tcx>, r: &Rvalue<'tcx>, env: TypingEnv<'tcx>, owner: DefId) -> String {
        match r {
            Rvalue::Use(o, ..) => format!("{{\"rv\":\"use\",\"o\":{}}}", self.op_json(body, o, env, owner)),
            Rvalue::Repeat(o, _) => format!("{{\"rv\":\"repeat\",\"o\":{}}}", self.op_json(body, o, env, owner)),
            Rvalue::Ref(_, bk, p) => {
                let m = matches!(bk, BorrowKind::Mut { .. });
                format!("{{\"rv\":\"ref\",\"mut\":{},\"p\":{}}}", m, self.place_json(body, p))
            }
            Rvalue::RawPtr(k, p) => {
                let m = format!("{:?}", k).contains("Mut");
                format!("{{\"rv\":\"rawptr\",\"mut\":{},\"p\":{}}}", m, self.place_json(body, p))
            }
            Rvalue::Cast(k, o, t) => {
                let ks = match k {
                    CastKind::Transmute => "Transmute".to_string(),
                    other => format!("{:?}", other).split('(').next().unwrap_or("").to_string(),
                };
                format!(
                    "{{\"rv\":\"cast\",\"kind\":{},\"o\":{},\"ty\":{}}}",
                    esc(&ks),
                    self.op_json(body, o, env, owner),
                    esc(&self.tystr(*t))
                )
            }
            Rvalue::BinaryOp(op, ab) => {
                let (a, b) = &**ab;
                format!(
                    "{{\"rv\":\"bin\",\"op\":{},\"a\":{},\"b\":{}}}",
                    esc(&binop(*op)),
                    self.op_json(body, a, env, owner),
                    self.op_json(body, b, env, owner)
                )
            }
            Rvalue::UnaryOp(op, a) => {
                let n = match op {
                    UnOp::Not => "Not",
                    UnOp::Neg => "Neg",
                    UnOp::PtrMetadata => "PtrMetadata",
                };
                format!("{{\"rv\":\"un\",\"op\":\"{}\",\"a\":{}}}", n, self.op_json(body, a, env, owner))
            }
            Rvalue::Discriminant(p) => {
                // variant names by discriminant value (also for enums of external crates, which have no adt record)
                let pty = p.ty(&body.local_decls, self.tcx).ty;
                let mut extra = String::new();
                if let ty::Adt(adt, _) = pty.kind() {
                    if adt.is_enum() && adt.variants().len() <= 64 {
                        let vs: Vec<String> = adt
                            .discriminants(self.tcx)
                            .map(|(vi, d)| format!("[{},{}]", d.val, esc(&adt.variant(vi).name.to_string())))
                            .collect();
                        extra = format!(",\"adt\":{},\"vn\":[{}]", esc(&self.path(adt.did())), vs.join(","));
                    }
                }
                format!("{{\"rv\":\"discr\",\"p\":{}{}}}", self.place_json(body, p), extra)
            }
            Rvalue::Aggregate(k, ops) => {
                let kind = match &**k {
                    AggregateKind::Array(_) => "\"array\"".to_string(),
                    AggregateKind::Tuple => "\"tuple\"".to_string(),
                    AggregateKind::Adt(did, vi, _, _, _) => {
                        let adt = self.tcx.adt_def(*did);
                        let vn = adt.variant(*vi).name.to_string();
                        let fields: Vec<String> =
                            adt.variant(*vi).fields.iter().map(|f| esc(&f.name.to_string())).collect();
                        format!(
                            "{{\"adt\":{},\"variant\":{},\"fields\":[{}]}}",
                            esc(&self.path(*did)),
                            esc(&vn),
                            fields.join(",")
                        )
                    }
                    AggregateKind::Closure(did, _) => format!("{{\"closure\":{}}}", esc(&self.path(*did))),
                    AggregateKind::RawPtr(..) => "\"rawptr\"".to_string(),
                    _ => "\"other\"".to_string(),
                };
                let o: Vec<String> = ops.iter().map(|x| self.op_json(body, x, env, owner)).collect();
                format!("{{\"rv\":\"agg\",\"kind\":{},\"ops\":[{}]}}", kind, o.join(","))
            }
            Rvalue::CopyForDeref(p) => {
                format!("{{\"rv\":\"use\",\"o\":{{\"c\":{}}}}}", self.place_json(body, p))
            }
            other => format!("{{\"rv\":\"other\",\"d\":{}}}", esc(&format!("{:?}", other))),
        }
    }

    fn body_json(&self, owner: DefId, body: &Body<'tcx>, env: TypingEnv<'tcx>) -> String {
        let mut s = String::new();
        // locals
        let mut names: Vec<Option<String>> = vec![None; body.local_decls.len()];
        for vdi in &body.var_debug_info {
            if let mir::VarDebugInfoContents::Place(p) = &vdi.value {
                if p.projection.is_empty() {
                    names[p.local.as_usize()] = Some(vdi.name.to_string());
                }
            }
        }
        s.push_str("\"argc\":");
        let _ = write!(s, "{}", body.arg_count);
        s.push_str(",\"locals\":[");
        for (i, d) in body.local_decls.iter().enumerate() {
            if i > 0 {
                s.push(',');
            }
            let n = match &names[i] {
                Some(n) => esc(n),
                None => "null".into(),
            };
            let _ = write!(s, "{{\"ty\":{},\"n\":{}}}", esc(&self.tystr(d.ty)), n);
        }
        s.push_str("],\"blocks\":[");
        for (bi, bb) in body.basic_blocks.iter().enumerate() {
            if bi > 0 {
                s.push(',');
            }
            let _ = write!(s, "{{\"cleanup\":{},\"st\":[", bb.is_cleanup);
            let mut first = true;
            for st in &bb.statements {
                let js = match &st.kind {
                    StatementKind::Assign(b) => {
                        let (p, r) = &**b;
                        Some(format!(
                            "{{\"s\":\"assign\",\"p\":{},\"r\":{},{}}}",
                            self.place_json(body, p),
                            self.rvalue_json(body, r, env, owner),
                            self.span_json(st.source_info.span)
                        ))
                    }
                    StatementKind::SetDiscriminant { place, variant_index } => Some(format!(
                        "{{\"s\":\"setdiscr\",\"p\":{},\"v\":{},{}}}",
                        self.place_json(body, place),
                        variant_index.as_usize(),
                        self.span_json(st.source_info.span)
                    )),
                    StatementKind::Intrinsic(i) => Some(format!(
                        "{{\"s\":\"intrinsic\",\"d\":{},{}}}",
                        esc(&format!("{:?}", i)),
                        self.span_json(st.source_info.span)
                    )),
                    _ => None,
                };
                if let Some(js) = js {
                    if !first {
                        s.push(',');
                    }
                    first = false;
                    s.push_str(&js);
                }
            }
            s.push_str("],\"term\":");
            let t = bb.terminator();
            let sp = self.span_json(t.source_info.span);
            let tj = match &t.kind {
                TerminatorKind::Goto { target } => format!("{{\"t\":\"goto\",\"to\":{}}}", target.as_usize()),
                TerminatorKind::SwitchInt { discr, targets } => {
                    let mut ts = vec![];
                    for (v, b) in targets.iter() {
                        ts.push(format!("[\"{}\",{}]", v, b.as_usize()));
                    }
                    format!(
                        "{{\"t\":\"switch\",\"o\":{},\"targets\":[{}],\"otherwise\":{},{}}}",
                        self.op_json(body, discr, env, owner),
                        ts.join(","),
                        targets.otherwise().as_usize(),
                        sp
                    )
                }
                TerminatorKind::Return => format!("{{\"t\":\"return\",{}}}", sp),
                TerminatorKind::Unreachable => "{\"t\":\"unreachable\"}".to_string(),
                TerminatorKind::UnwindResume => "{\"t\":\"resume\"}".to_string(),
                TerminatorKind::UnwindTerminate(_) => "{\"t\":\"terminate\"}".to_string(),
                TerminatorKind::Drop { place, target, unwind, .. } => format!(
                    "{{\"t\":\"drop\",\"p\":{},\"to\":{},\"unwind\":{}}}",
                    self.place_json(body, place),
                    target.as_usize(),
                    unwind_json(unwind)
                ),
                TerminatorKind::Call { func, args, destination, target, unwind, .. } => {
                    let fty = func.ty(&body.local_decls, self.tcx);
                    let fj = match fty.kind() {
                        ty::FnDef(did, gargs) => {
                            let (res, virt) = self.resolve(owner, env, *did, gargs);
                            format!(
                                "{{\"def\":{},\"raw\":{},\"full\":{},\"virt\":{}}}",
                                esc(&res),
                                esc(&self.path(*did)),
                                esc(&self.path_args(*did, gargs)),
                                virt
                            )
                        }
                        _ => format!(
                            "{{\"op\":{},\"ty\":{}}}",
                            self.op_json(body, func, env, owner),
                            esc(&self.tystr(fty))
                        ),
                    };
                    let a: Vec<String> = args
                        .iter()
                        .map(|x| {
                            let oj = self.op_json(body, &x.node, env, owner);
                            oj
                        })
                        .collect();
                    let aty: Vec<String> = args
                        .iter()
                        .map(|x| esc(&self.tystr(x.node.ty(&body.local_decls, self.tcx))))
                        .collect();
                    format!(
                        "{{\"t\":\"call\",\"f\":{},\"args\":[{}],\"aty\":[{}],\"dest\":{},\"to\":{},\"unwind\":{},{}}}",
                        fj,
                        a.join(","),
                        aty.join(","),
                        self.place_json(body, destination),
                        target.map(|b| b.as_usize().to_string()).unwrap_or("null".into()),
                        unwind_json(unwind),
                        sp
                    )
                }
                TerminatorKind::Assert { cond, expected, msg, target, unwind } => {
                    let m = match &**msg {
                        AssertKind::Overflow(op, ..) => format!("Overflow({})", binop(*op)),
                        AssertKind::OverflowNeg(_) => "OverflowNeg".to_string(),
                        AssertKind::DivisionByZero(_) => "DivisionByZero".to_string(),
                        AssertKind::RemainderByZero(_) => "RemainderByZero".to_string(),
                        AssertKind::BoundsCheck { .. } => "BoundsCheck".to_string(),
                        AssertKind::MisalignedPointerDereference { .. } => "Misaligned".to_string(),
                        AssertKind::NullPointerDereference => "NullDeref".to_string(),
                        _ => "Other".to_string(),
                    };
                    format!(
                        "{{\"t\":\"assert\",\"cond\":{},\"expected\":{},\"msg\":{},\"to\":{},\"unwind\":{},{}}}",
                        self.op_json(body, cond, env, owner),
                        expected,
                        esc(&m),
                        target.as_usize(),
                        unwind_json(unwind),
                        sp
                    )
                }
                TerminatorKind::FalseEdge { real_target, .. } => {
                    format!("{{\"t\":\"goto\",\"to\":{}}}", real_target.as_usize())
                }
                TerminatorKind::FalseUnwind { real_target, .. } => {
                    format!("{{\"t\":\"goto\",\"to\":{}}}", real_target.as_usize())
                }
                other => format!("{{\"t\":\"other\",\"d\":{}}}", esc(&format!("{:?}", other))),
            };
            s.push_str(&tj);
            s.push('}');
        }
        s.push(']');
        s
    }

    fn emit_body(&self, out: &mut Vec<String>, did: DefId, kind: &str, body: &Body<'tcx>, suffix: &str) {
        let tcx = self.tcx;
        let env = TypingEnv::post_analysis(tcx, did);
        let span = tcx.def_span(did);
        let (file, line) = self.line(span);
        let full = body.span;
        let (_, l0) = self.line(full.shrink_to_lo());
        let (_, l1) = self.line(full.shrink_to_hi());
        let mut s = String::new();
        let id = format!("{}{}", self.path(did), suffix);
        let _ = write!(
            s,
            "{{\"rec\":\"body\",\"id\":{},\"crate\":{},\"kind\":{},\"file\":{},\"line\":{},\"l0\":{},\"l1\":{}",
            esc(&id),
            esc(&self.krate),
            esc(kind),
            esc(&file),
            line,
            l0,
            l1
        );
        let dk = tcx.def_kind(did);
        if matches!(dk, DefKind::Fn | DefKind::AssocFn) {
            let sig = tcx.fn_sig(did).skip_binder().skip_binder();
            let abi = format!("{:?}", sig.abi());
            let vis = tcx.visibility(did);
            let viss = if vis.is_public() { "pub" } else { "restricted" };
            let attrs = tcx.codegen_fn_attrs(did);
            let nm = attrs.symbol_name.is_some()
                || format!("{:?}", attrs.flags).contains("NO_MANGLE");
            let uns = sig.safety().is_unsafe();
            let _ = write!(
                s,
                ",\"abi\":{},\"vis\":{},\"no_mangle\":{},\"unsafe\":{}",
                esc(&abi),
                esc(viss),
                nm,
                uns
            );
            if dk == DefKind::AssocFn {
                let ai = tcx.associated_item(did);
                if let Some(t) = ai.trait_item_def_id() {
                    let _ = write!(s, ",\"impl_of\":{}", esc(&self.path(t)));
                }
                let parent = tcx.parent(did);
                if matches!(tcx.def_kind(parent), DefKind::Impl { .. }) {
                    let st = tcx.type_of(parent).skip_binder();
                    let _ = write!(s, ",\"self_ty\":{}", esc(&self.tystr(st)));
                    if tcx.is_automatically_derived(parent) {
                        s.push_str(",\"derived\":true");
                    }
                } else if tcx.def_kind(parent) == DefKind::Trait {
                    let _ = write!(s, ",\"trait_default\":{}", esc(&self.path(parent)));
                }
            }
        }
        if dk == DefKind::Closure {
            let mut p = tcx.parent(did);
            while tcx.def_kind(p) == DefKind::Closure {
                p = tcx.parent(p);
            }
            let _ = write!(s, ",\"parent\":{},\"iparent\":{}", esc(&self.path(p)), esc(&self.path(tcx.parent(did))));
        }
        if span.from_expansion() {
            let ms: Vec<String> = self.macros(span).iter().map(|x| esc(x)).collect();
            let _ = write!(s, ",\"x\":[{}]", ms.join(","));
        }
        s.push(',');
        s.push_str(&self.body_json(did, body, env));
        s.push('}');
        out.push(s);
    }

    fn emit_adt(&self, out: &mut Vec<String>, did: DefId) {
        let tcx = self.tcx;
        let adt = tcx.adt_def(did);
        let env = TypingEnv::post_analysis(tcx, did);
        let (file, line) = self.line(tcx.def_span(did));
        let mut s = String::new();
        let _ = write!(
            s,
            "{{\"rec\":\"adt\",\"id\":{},\"crate\":{},\"kind\":{},\"file\":{},\"line\":{},\"variants\":[",
            esc(&self.path(did)),
            esc(&self.krate),
            esc(if adt.is_enum() { "enum" } else if adt.is_union() { "union" } else { "struct" }),
            esc(&file),
            line
        );
        // auto traits of fully concrete ADTs (type-level facts for the Send/Sync census)
        let generics = tcx.generics_of(did);
        let mut auto = String::from("null");
        if generics.own_params.is_empty() && generics.parent.is_none() {
            let ty = tcx.type_of(did).instantiate_identity().skip_norm_wip();
            let infcx = tcx.infer_ctxt().build(ty::TypingMode::PostAnalysis);
            let pe = tcx.param_env(did);
            let send = tcx.get_diagnostic_item(sym::Send);
            let sync = tcx.lang_items().sync_trait();
            let chk = |t: Option<DefId>| -> String {
                match t {
                    Some(t) => format!("{}", infcx.type_implements_trait(t, [ty], pe).must_apply_modulo_regions()),
                    None => "null".to_string(),
                }
            };
            auto = format!("{{\"send\":{},\"sync\":{}}}", chk(send), chk(sync));
        }
        s.insert_str(s.len() - "\"variants\":[".len(), &format!("\"auto\":{},", auto));
        for (vi, v) in adt.variants().iter().enumerate() {
            if vi > 0 {
                s.push(',');
            }
            let _ = write!(s, "{{\"name\":{},\"fields\":[", esc(&v.name.to_string()));
            for (fi, f) in v.fields.iter().enumerate() {
                if fi > 0 {
                    s.push(',');
                }
                let fty = tcx.type_of(f.did).instantiate_identity().skip_norm_wip();
                let fz = if fty.has_param() {
                    "null".to_string()
                } else {
                    format!("{}", tcx.erase_and_anonymize_regions(fty).is_freeze(tcx, env))
                };
                let _ = write!(
                    s,
                    "{{\"name\":{},\"ty\":{},\"freeze\":{},\"t\":{}}}",
                    esc(&f.name.to_string()),
                    esc(&self.tystr(fty)),
                    fz,
                    self.ty_json(fty, env, 0)
                );
            }
            s.push_str("]}");
        }
        s.push_str("]}");
        out.push(s);
    }

    fn emit_static(&self, out: &mut Vec<String>, did: DefId) {
        let tcx = self.tcx;
        let env = TypingEnv::post_analysis(tcx, did);
        let t = tcx.type_of(did).instantiate_identity().skip_norm_wip();
        let (file, line) = self.line(tcx.def_span(did));
        let fz = tcx.erase_and_anonymize_regions(t).is_freeze(tcx, env);
        let m = tcx.is_mutable_static(did);
        let tl = tcx.is_thread_local_static(did);
        out.push(format!(
            "{{\"rec\":\"static\",\"id\":{},\"crate\":{},\"file\":{},\"line\":{},\"ty\":{},\"freeze\":{},\"mutable\":{},\"thread_local\":{},\"t\":{}}}",
            esc(&self.path(did)),
            esc(&self.krate),
            esc(&file),
            line,
            esc(&self.tystr(t)),
            fz,
            m,
            tl,
            self.ty_json(t, env, 0)
        ));
    }
}

fn unwind_json(u: &mir::UnwindAction) -> String {
    match u {
        mir::UnwindAction::Cleanup(b) => b.as_usize().to_string(),
        _ => "null".to_string(),
    }
}

fn binop(op: BinOp) -> String {
    format!("{:?}", op)
}

struct Cb;

impl rustc_driver::Callbacks for Cb {
    fn after_analysis<'tcx>(
        &mut self,
        _c: &rustc_interface::interface::Compiler,
        tcx: TyCtxt<'tcx>,
    ) -> Compilation {
        let krate = tcx.crate_name(LOCAL_CRATE).to_string();
        let outdir = match std::env::var("LLG_FACTS_OUT") {
            Ok(d) => d,
            Err(_) => return Compilation::Continue,
        };
        if krate.starts_with("build_script") {
            return Compilation::Continue;
        }
        let only = std::env::var("LLG_FACTS_CRATES").unwrap_or_default();
        if !only.is_empty() && !only.split(',').any(|c| c == krate) {
            return Compilation::Continue;
        }
        let cx = Cx { tcx, krate: krate.clone() };
        let mut out: Vec<String> = vec![];
        let mut nbodies = 0usize;
        for ldid in tcx.hir_body_owners() {
            let did = ldid.to_def_id();
            let dk = tcx.def_kind(did);
            match dk {
                DefKind::Fn | DefKind::AssocFn | DefKind::Closure => {
                    if tcx.is_constructor(did) {
                        continue;
                    }
                    let body = tcx.optimized_mir(did);
                    let kind = match dk {
                        DefKind::Fn => "fn",
                        DefKind::AssocFn => "assoc_fn",
                        _ => "closure",
                    };
                    cx.emit_body(&mut out, did, kind, body, "");
                    nbodies += 1;
                    let proms = tcx.promoted_mir(did);
                    for (pi, pb) in proms.iter().enumerate() {
                        cx.emit_body(&mut out, did, "promoted", pb, &format!("::{{promoted#{}}}", pi));
                    }
                }
                DefKind::Const { .. } | DefKind::AssocConst { .. } | DefKind::Static { .. } => {
                    let body = tcx.mir_for_ctfe(did);
                    let kind = if matches!(dk, DefKind::Static { .. }) { "static" } else { "const" };
                    cx.emit_body(&mut out, did, kind, body, "");
                    let proms = tcx.promoted_mir(did);
                    for (pi, pb) in proms.iter().enumerate() {
                        cx.emit_body(&mut out, did, "promoted", pb, &format!("::{{promoted#{}}}", pi));
                    }
                    if matches!(dk, DefKind::Static { .. }) {
                        cx.emit_static(&mut out, did);
                    }
                }
                _ => {}
            }
        }
        for ldid in tcx.hir_crate_items(()).definitions() {
            let did = ldid.to_def_id();
            match tcx.def_kind(did) {
                DefKind::Struct | DefKind::Enum | DefKind::Union => cx.emit_adt(&mut out, did),
                _ => {}
            }
        }
        out.push(format!(
            "{{\"rec\":\"crate\",\"crate\":{},\"bodies\":{}}}",
            esc(&krate),
            nbodies
        ));
        let path = format!("{}/{}-{}.jsonl", outdir, krate, std::process::id());
        let mut f = std::fs::File::create(&path).expect("create facts file");
        let mut buf = out.join("\n");
        buf.push('\n');
        f.write_all(buf.as_bytes()).expect("write facts");
        Compilation::Continue
    }
}

fn main() {
    let mut args: Vec<String> = std::env::args().collect();
    // RUSTC_WORKSPACE_WRAPPER passes the real rustc as argv[1]
    if args.len() > 1 && (args[1].ends_with("rustc") || args[1].contains("/rustc")) {
        args.remove(1);
    }
    rustc_driver::run_compiler(&args, &mut Cb);
}
