//! Deliberately good / bad miniature code: every generic rule kind of /verif/rules/lib.py must give the
//! expected verdict on it on every run (guards against vacuous passes and driver drift).
#![allow(dead_code, clippy::all)]

pub struct S {
    pub v: Vec<u32>,
    pub flag: bool,
    pub n: usize,
    pub depth: usize,
}

fn helper_ok(s: &S) -> Option<u32> {
    if !s.flag {
        return None;
    }
    Some(1)
}

impl S {
    fn open(&mut self) {
        self.n += 1;
    }
    fn close(&mut self) {
        self.n -= 1;
    }

    pub fn shrink(&mut self) {
        self.v.truncate(1);
    }

    pub fn guarded(&mut self) {
        if self.flag {
            self.v.push(1);
        }
    }

    pub fn unguarded(&mut self) {
        self.v.push(1);
    }

    pub fn and_guard(&mut self, a: bool) {
        let ok = a && self.flag;
        if ok {
            self.v.push(2);
        }
    }

    pub fn ip_guard(&mut self) {
        if let Some(x) = helper_ok(self) {
            self.v.push(x);
        }
    }

    pub fn paired(&mut self) {
        self.open();
        self.v.push(3);
        self.close();
    }

    pub fn unpaired(&mut self, x: bool) {
        self.open();
        if x {
            return;
        }
        self.close();
    }

    pub fn rec(&mut self, d: usize) -> usize {
        if self.v.is_empty() {
            return d;
        }
        self.v.pop();
        self.rec(d + 1)
    }

    pub fn rec_param(&mut self, d: usize) -> Result<usize, ()> {
        if d > 10 {
            return Err(());
        }
        self.v.pop();
        self.rec_param(d + 1)
    }

    pub fn rec_counter(&mut self) -> Result<usize, ()> {
        if self.depth + 1 >= 30 {
            return Err(());
        }
        self.depth += 1;
        let r = self.rec_counter_inner();
        self.depth -= 1;
        r
    }

    fn rec_counter_inner(&mut self) -> Result<usize, ()> {
        if self.v.pop().is_some() {
            self.rec_counter()
        } else {
            Ok(0)
        }
    }

    pub fn try_guard(&mut self) -> Result<(), ()> {
        self.rec_param(0)?;
        self.v.push(9);
        Ok(())
    }

    // ---- transparent helpers (names containing `inl_helper` are NOT in rules/known_fns.txt): the three functions
    // below must be analysed as if their helpers were written in line
    fn inl_helper_check(&self, n: usize) -> Result<(), ()> {
        if !self.flag || n > self.n {
            return Err(());
        }
        Ok(())
    }
    fn inl_helper_push(&mut self, x: u32) {
        self.v.push(x);
    }
    fn inl_helper_nest<F: FnOnce(&mut Self) -> Result<usize, ()>>(&mut self, f: F) -> Result<usize, ()> {
        if self.depth + 1 >= 30 {
            return Err(());
        }
        self.depth += 1;
        let r = f(self);
        self.depth -= 1;
        r
    }

    pub fn inl_caller(&mut self, n: usize, x: u32) -> Result<(), ()> {
        self.inl_helper_check(n)?;
        self.inl_helper_push(x);
        Ok(())
    }

    pub fn inl_caller_unguarded(&mut self, x: u32) {
        self.inl_helper_push(x);
    }

    pub fn inl_rec(&mut self) -> Result<usize, ()> {
        self.inl_helper_nest(|s| s.inl_rec_inner())
    }

    fn inl_rec_inner(&mut self) -> Result<usize, ()> {
        if self.v.pop().is_some() {
            self.inl_rec()
        } else {
            Ok(0)
        }
    }

    // the closures of this function are NOT in rules/known_fns.txt (tools/mkknown.py): their calls are projected onto the creating block
    pub fn unk_closure_guarded(&mut self, xs: &[u32]) {
        if self.flag {
            xs.iter().filter(|&&x| x != 0).for_each(|&x| self.v.push(x));
        }
    }
}
