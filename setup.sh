#!/bin/sh
# Builds the fact-extraction driver (nightly, zero dependencies, offline) and checks the toolchain.
set -e
cd "$(dirname "$0")"
export CARGO_NET_OFFLINE=true
rustc +nightly --version >/dev/null
(cd driver && cargo +nightly build --release --offline)
test -x driver/target/release/llg-facts
python3 -m compileall -q rules >/dev/null
echo "setup ok"
