"""Repetition-count algebra: an abstract interpretation of the grammar-builder's repetition helpers.

`GrammarBuilder::{simple_repeat, repeat_exact, at_most, at_least, repeat}` build a grammar node that must derive exactly
`elt^k` for the counts k named by their arguments; at_most / repeat_exact do it by a logarithmic factorisation (pieces of
K elements, quotient n/K, remainder n%K).  Their results are combinations of a handful of node constructors, so the set
of counts a result derives can be computed *symbolically* from the expression tree of the returned node:

    elt                   -> {1}                 empty()               -> {0}
    simple_repeat(x, k)   -> k * C(x)            repeat_exact(x, k)    -> k * C(x)      (contract of the callee)
    at_most(x, m)         -> {0, u, 2u, .. m*u}  optional(x)           -> {0, u}        (u = C(x), a constant)
    zero_or_more(x)       -> {0, u, 2u, ..}      one_or_more(x)        -> {u, 2u, ..}
    join(&[a, b, ..])     -> C(a) + C(b) + ..    select(&[a, b, ..])   -> C(a) U C(b) U ..
    (lo..hi).map(|k| f(k)).collect()  as join operand: sum, as select operand: union over k

Count sets are unions of arithmetic progressions (stride, lo, hi) whose bounds are linear forms over the function's own
count parameter n, its quotient q = n / K and remainder r = n % K (n = K*q + r).  The obligation per function is the
inductive step: *assuming the callees' contracts, every value the function returns derives exactly its own contract*
([0..n] for at_most, {n} for repeat_exact / simple_repeat, [n..inf) for at_least, [min..max] for repeat), under the
equalities of the dominating branch conditions (n == 0, n == 1, min == max, min == 0).  Nothing is executed; an
expression outside this algebra makes the function *not judged* (None), never an alarm.
"""
from . import facts as F
from . import lib as L

INF = "inf"


# ---------------------------------------------------------------- linear forms {symbol: coef, 1: const}
def lin(c=0, **syms):
    d = {k: v for k, v in syms.items() if v}
    if c:
        d[1] = c
    return d


def ladd(a, b, sign=1):
    out = dict(a)
    for k, v in b.items():
        out[k] = out.get(k, 0) + sign * v
        if out[k] == 0:
            del out[k]
    return out


def lmulc(a, c):
    return {k: v * c for k, v in a.items() if v * c}


def lconst(a):
    """integer value if the form is constant"""
    if not a:
        return 0
    if set(a) == {1}:
        return a[1]
    return None


def lmul(a, b):
    ca, cb = lconst(a), lconst(b)
    if ca is not None:
        return lmulc(b, ca)
    if cb is not None:
        return lmulc(a, cb)
    return None


def lsubst(a, sub):
    out = {}
    for k, v in a.items():
        if k in sub:
            out = ladd(out, lmulc(sub[k], v))
        else:
            out = ladd(out, {k: v})
    return out


def lfmt(a):
    if a == INF:
        return "inf"
    if not a:
        return "0"
    parts = []
    for k in sorted(a, key=lambda x: (x == 1, str(x))):
        v = a[k]
        parts.append(str(v) if k == 1 else ("%s" % k if v == 1 else "%d*%s" % (v, k)))
    return " + ".join(parts).replace("+ -", "- ")


# ---------------------------------------------------------------- count sets: lists of (stride, lo, hi)
def single(v):
    return [(0, v, v)]


def cs_fmt(cs):
    if cs is None:
        return "?"
    return " U ".join("{%s}" % lfmt(lo) if hi != INF and lo == hi else "[%s..%s]%s" % (lfmt(lo), lfmt(hi), "" if s in (0, 1) else " step %d" % s) for s, lo, hi in cs)


def cs_add(a, b):
    if a is None or b is None:
        return None
    out = []
    for s1, lo1, hi1 in a:
        for s2, lo2, hi2 in b:
            lo = ladd(lo1, lo2)
            hi = INF if INF in (hi1, hi2) else ladd(hi1, hi2)
            if hi1 != INF and lo1 == hi1:
                out.append((s2 if hi2 == INF or lo2 != hi2 else 0, lo, hi))
            elif hi2 != INF and lo2 == hi2:
                out.append((s1, lo, hi))
            else:
                # progression + interval: dense when the interval is at least one stride long
                for (sa, loa, hia), (sb, lob, hib) in (((s1, lo1, hi1), (s2, lo2, hi2)), ((s2, lo2, hi2), (s1, lo1, hi1))):
                    if sb == 1:
                        width = None if hib == INF else lconst(ladd(hib, lob, -1))
                        if sa == 1 or hib == INF or (width is not None and width + 1 >= sa):
                            out.append((1, lo, hi))
                            break
                else:
                    return None
    return out


def cs_scale(a, k):
    """k copies in sequence of something deriving a single count"""
    if a is None or k is None or len(a) != 1:
        return None
    s, lo, hi = a[0]
    if hi == INF or lo != hi:
        return None
    p = lmul(lo, k)
    return None if p is None else single(p)


def cs_upto(a, m, lo_mult=0):
    """{lo_mult*u, .., m*u} for a unit count u that is a positive constant"""
    if a is None or len(a) != 1:
        return None
    s, lo, hi = a[0]
    if hi == INF or lo != hi:
        return None
    u = lconst(lo)
    if u is None or u <= 0:
        return None
    return [(u, lin(lo_mult * u), INF if m == INF else lmulc(m, u))]


def cs_equiv(cs, lo, hi, sub):
    """is the union exactly the dense range [lo..hi] (hi may be INF), after substitution `sub`?"""
    if cs is None:
        return None
    iv = []
    for s, a, b in cs:
        a = lsubst(a, sub)
        b = b if b == INF else lsubst(b, sub)
        if b != INF and a == b:
            iv.append((a, b))
        elif s == 1:
            iv.append((a, b))
        elif b != INF and s > 1 and lconst(ladd(b, a, -1)) == s:
            return False  # {a, a+s}: a two-point set is dense only for s == 1
        elif b != INF and lconst(ladd(b, a, -1)) == 0:
            iv.append((a, a))
        else:
            return False if s > 1 else None
    lo = lsubst(lo, sub)
    hi = hi if hi == INF else lsubst(hi, sub)
    import itertools
    if len(iv) > 5:
        return None
    for perm in itertools.permutations(iv):
        if perm[0][0] != lo:
            continue
        ok = True
        for (a1, b1), (a2, b2) in zip(perm, perm[1:]):
            if b1 == INF:
                ok = False
                break
            gap = lconst(ladd(a2, ladd(b1, lin(1)), -1))   # a2 - (b1 + 1)
            if gap is None or gap > 0:
                ok = False
                break
            if gap < 0:
                # overlap is fine when the second interval does not start before the first
                d = lconst(ladd(a2, a1, -1))
                if d is None or d < 0:
                    ok = False
                    break
        if ok and perm[-1][1] == hi:
            return True
    return False


# ---------------------------------------------------------------- interpreter
class Interp:
    def __init__(self, P, fn_id, elt_param=2, syms=None, K=None):
        self.P = P
        self.b = P.bodies[fn_id]
        self.elt = elt_param
        self.syms = syms or {}       # param index -> symbol name
        self.K = K
        self.why = None

    def fail(self, why):
        if self.why is None:
            self.why = why
        return None

    # ---- integers
    def num(self, b, e, env=None, depth=0):
        env = env or {}
        if depth > 16:
            return self.fail("integer expression too deep")
        k = e[0]
        if k == "const" and isinstance(e[1], int):
            return lin(e[1])
        if k == "place" and len(e[1]) == 1 and b is self.b and e[1][0] in self.syms:
            return lin(**{self.syms[e[1][0]]: 1})
        if k == "place" and len(e[1]) == 1 and ("p", e[1][0]) in env:
            return env[("p", e[1][0])]
        if k in ("place",) and b is self.b:
            r = L.role(b, {"c": e[1]}) if False else None
        if k == "call":
            last = e[1].rsplit("::", 1)[-1]
            if last in ("unwrap", "clone", "from", "into") and e[2]:
                inner = e[2][0]
                if last == "unwrap" and inner[0] == "place" and len(inner[1]) == 1 and ("opt", inner[1][0]) in self.syms:
                    return lin(**{self.syms[("opt", inner[1][0])]: 1})
                return self.num(b, inner, env, depth + 1)
        if k == "place" and b is self.b:
            # (max as Some).0 of an Option parameter
            p = e[1]
            if isinstance(p[0], int) and ("opt", p[0]) in self.syms and all(isinstance(x, dict) for x in p[1:]):
                return lin(**{self.syms[("opt", p[0])]: 1})
        if k == "cast":
            return self.num(b, e[1], env, depth + 1)
        if k == "bin":
            op = e[1]
            x, y = self.num(b, e[2], env, depth + 1), self.num(b, e[3], env, depth + 1)
            if x is None or y is None:
                return None
            if op == "Add":
                return ladd(x, y)
            if op == "Sub":
                return ladd(x, y, -1)
            if op == "Mul":
                m = lmul(x, y)
                return m if m is not None else self.fail("non-linear product")
            if op in ("Div", "Rem"):
                c = lconst(y)
                cx = lconst(x)
                if c and cx is not None:
                    return lin(cx // c if op == "Div" else cx % c)
                if c and len(x) == 1 and 1 not in x and list(x.values()) == [1]:
                    sym = list(x)[0]
                    if self.K is None:
                        self.K = c
                    if c != self.K:
                        return self.fail("two different divisors")
                    self.divsym = sym
                    return lin(**{("q_" if op == "Div" else "r_") + sym: 1})
                return self.fail("division not of the form sym / K")
        return self.fail("integer expression not interpretable: %s" % F.fmt_expr(e)[:80])

    # ---- slices / vectors of nodes: list of parts ('one', cs) | ('rep', lo, hi_inclusive, fn(k_lin)->cs)
    def parts(self, b, e, env, depth=0):
        if depth > 10:
            return self.fail("slice too deep")
        if e[0] == "cast":
            return self.parts(b, e[1], env, depth + 1)
        if e[0] == "call":
            last = e[1].rsplit("::", 1)[-1]
            if last in ("deref", "as_slice", "as_ref", "borrow", "deref_mut") and e[2]:
                return self.parts(b, e[2][0], env, depth + 1)
            if last == "collect" and e[2]:
                return self.iter_parts(b, e[2][0], env, depth + 1)
            if last in ("to_vec", "into_vec", "from") and e[2]:
                return self.parts(b, e[2][0], env, depth + 1)
        if e[0] in ("ref", "place") and isinstance(e[1][0], int):
            l = e[1][0]
            ds = [d for d in b.defs().get(l, []) if d[2] != "partial"]
            if len(ds) == 1 and ds[0][2] == "assign" and ds[0][3]["rv"] == "agg" and ds[0][3]["kind"] == "array":
                out = []
                for o in ds[0][3]["ops"]:
                    c = self.node(b, b.expr(o), env, depth + 1)
                    if c is None:
                        return None
                    out.append(("one", c))
                return out
            if len(ds) == 1:
                base = None
                if ds[0][2] == "call":
                    t = ds[0][3]
                    base = self.parts(b, ("call", t["f"].get("def", ""), [b.expr(a) for a in t["args"]], ds[0][0]), env, depth + 1)
                elif ds[0][2] == "assign" and ds[0][3]["rv"] in ("use", "cast", "ref"):
                    ex = b.expr_rvalue(ds[0][3])
                    if ex[0] in ("ref", "place") and ex[1] == [l]:
                        return self.fail("self-referential slice")
                    base = self.parts(b, ex, env, depth + 1)
                if base is None:
                    return None
                # pushes onto this vector
                for bi, t in b.calls():
                    d = t["f"].get("def", "")
                    if d.endswith("Vec::<T, A>::push") or d.endswith("::push"):
                        r0 = b.expr(t["args"][0])
                        if r0[0] in ("ref", "place") and r0[1][0] == l:
                            c = self.node(b, b.expr(t["args"][1]), env, depth + 1)
                            if c is None:
                                return None
                            base = base + [("one", c)]
                return base
        return self.fail("slice of nodes not interpretable: %s" % F.fmt_expr(e)[:80])

    def iter_parts(self, b, e, env, depth):
        if e[0] == "call" and e[1].rsplit("::", 1)[-1] == "map" and len(e[2]) == 2:
            rng = self.range_of(b, e[2][0], env)
            clo = L._closures_in(e[2][1])
            if rng is None or len(clo) != 1:
                return self.fail("map over something that is not an integer range / not one closure")
            cb = self.P.body_any(clo[0]) if hasattr(self.P, "body_any") else self.P.bodies.get(clo[0])
            if cb is None:
                return self.fail("closure body missing")
            ups = self.upvars(b, e[2][1])
            lo, hi = rng

            def fn(k, cb=cb, ups=ups, env=env):
                env2 = dict(env)
                env2[("p", 2)] = k
                env2["ups"] = ups
                env2["parent"] = (b, env)
                return self.node(cb, cb.expr_place([0]), env2, depth + 1)
            return [("rep", lo, hi, fn)]
        return self.fail("iterator not interpretable")

    def upvars(self, b, e):
        """closure aggregate operand expressions, by capture index"""
        if e[0] == "agg":
            return list(e[2])
        return []

    def range_of(self, b, e, env):
        """(lo, hi_inclusive) linear forms of an integer range expression"""
        if e[0] == "call" and e[1].endswith("RangeInclusive::<Idx>::new") and len(e[2]) == 2:
            lo, hi = self.num(b, e[2][0], env), self.num(b, e[2][1], env)
            return None if lo is None or hi is None else (lo, hi)
        if e[0] == "agg" and isinstance(e[1], dict) and e[1].get("adt", "").endswith("ops::range::Range") and len(e[2]) == 2:
            lo, hi = self.num(b, e[2][0], env), self.num(b, e[2][1], env)
            return None if lo is None or hi is None else (lo, ladd(hi, lin(1), -1))
        if e[0] == "call" and e[1].rsplit("::", 1)[-1] in ("into_iter", "iter") and e[2]:
            return self.range_of(b, e[2][0], env)
        return None

    # ---- nodes
    def is_elt(self, b, e, env):
        if e[0] == "place":
            p = e[1]
            if b is self.b and len(p) == 1 and p[0] == self.elt:
                return True
            # captured by a closure: (*_1).f[*]
            if b is not self.b and p[0] == 1 and "ups" in env:
                idx = next((x["f"] for x in p[1:] if isinstance(x, dict) and "f" in x), None)
                if idx is not None and idx < len(env["ups"]):
                    pe = env["ups"][idx]
                    pb, penv = env["parent"]
                    if pe[0] in ("ref", "place"):
                        return self.is_elt(pb, ("place", pe[1]), penv)
        return False

    def node(self, b, e, env=None, depth=0):
        env = env or {}
        if depth > 14:
            return self.fail("node expression too deep")
        if self.is_elt(b, e, env):
            return single(lin(1))
        if e[0] == "call":
            last = e[1].rsplit("::", 1)[-1]
            a = e[2]
            owner = e[1].rsplit("::", 2)[-2] if e[1].count("::") >= 2 else ""
            if owner not in ("GrammarBuilder",):
                if last in ("clone", "deref") and a:
                    return self.node(b, a[0], env, depth + 1)
                return self.fail("call outside the algebra: %s" % e[1])
            if last == "empty":
                return single(lin(0))
            if last == "optional" and len(a) == 2:
                return cs_upto(self.node(b, a[1], env, depth + 1), lin(1))
            if last in ("simple_repeat", "repeat_exact") and len(a) == 3:
                return cs_scale(self.node(b, a[1], env, depth + 1), self.num(b, a[2], env))
            if last == "at_most" and len(a) == 3:
                m = self.num(b, a[2], env)
                return None if m is None else cs_upto(self.node(b, a[1], env, depth + 1), m)
            if last == "zero_or_more" and len(a) == 2:
                return cs_upto(self.node(b, a[1], env, depth + 1), INF)
            if last == "one_or_more" and len(a) == 2:
                return cs_upto(self.node(b, a[1], env, depth + 1), INF, 1)
            if last == "at_least" and len(a) == 3:
                c = self.node(b, a[1], env, depth + 1)
                n = self.num(b, a[2], env)
                if c is None or n is None:
                    return None
                return cs_add(cs_scale(c, n), cs_upto(c, INF))
            if last == "join" and len(a) == 2:
                ps = self.parts(b, a[1], env)
                if ps is None:
                    return None
                tot = single(lin(0))
                for p in ps:
                    if p[0] == "one":
                        tot = cs_add(tot, p[1])
                    else:
                        _, lo, hi, fn = p
                        c = fn(lin(k_=1))
                        if c is None:
                            return None
                        if any("k_" in x for (_, l1, h1) in c for x in (l1, h1) if x != INF):
                            return self.fail("join over a range whose element depends on the index")
                        tot = cs_add(tot, cs_scale(c, ladd(ladd(hi, lo, -1), lin(1))))
                    if tot is None:
                        return self.fail("sum of count sets not representable")
                return tot
            if last == "select" and len(a) == 2:
                ps = self.parts(b, a[1], env)
                if ps is None:
                    return None
                out = []
                for p in ps:
                    if p[0] == "one":
                        out += p[1]
                    else:
                        _, lo, hi, fn = p
                        c = fn(lin(k_=1))
                        if c is None or len(c) != 1:
                            return None
                        s, l1, h1 = c[0]
                        if h1 == INF or l1 != h1:
                            return self.fail("select over a range of non-singletons")
                        u = l1.get("k_", 0)
                        rest = {k: v for k, v in l1.items() if k != "k_"}
                        if u <= 0:
                            return self.fail("select over a range whose element does not grow with the index")
                        out.append((u, ladd(rest, lmulc(lo, u)), ladd(rest, lmulc(hi, u))))
                return out
            return self.fail("node constructor outside the algebra: %s" % last)
        if e[0] == "deref":
            return self.node(b, e[1], env, depth + 1)
        if e[0] == "local":
            return self.fail("node value with several definitions")
        return self.fail("node expression not interpretable: %s" % F.fmt_expr(e)[:80])

    # ---- per-function obligation
    def result_defs(self):
        """(block, node-expression) for every value the function hands back other than a cache hit"""
        b = self.b
        out = []
        target = None
        for bi, t in b.calls():
            d = t["f"].get("def", "")
            if d.endswith("HashMap::<K, V, S, A>::insert") and len(t["args"]) == 3:
                p = F.op_place(t["args"][2])
                if p and len(p) == 1:
                    target = p[0]
        if target is None:
            target = 0
        seen = set()

        def collect(l, depth=0):
            if l in seen or depth > 6:
                return
            seen.add(l)
            for (bi, si, kind, payload) in b.defs().get(l, []):
                if kind == "call":
                    out.append((bi, ("call", payload["f"].get("def", ""), [b.expr(a) for a in payload["args"]], bi)))
                elif kind == "assign":
                    r = payload
                    if r["rv"] == "use":
                        p = F.op_place(r["o"])
                        if p and len(p) == 1 and len([d for d in b.defs().get(p[0], []) if d[2] != "partial"]) > 1:
                            collect(p[0], depth + 1)
                            continue
                    out.append((bi, b.expr_rvalue(r)))
        collect(target)
        return out

    def path_subst(self, bi):
        """equalities `param == const` / `param == param` known on every path to block bi (dominating true edges)"""
        b = self.b
        sub = {}
        for sb, e, targets, otherwise in b.switch_edges():
            if not (e[0] == "bin" and e[1] in ("Eq", "Ne")):
                continue
            x, y = self.num(b, e[2]), self.num(b, e[3])
            self.why = None
            if x is None or y is None:
                continue
            # edge on which the equality holds
            tv = 1 if e[1] == "Eq" else 0
            eq_targets = [t for v, t in targets if int(v) == tv]
            if tv == 1 and not eq_targets and all(int(v) == 0 for v, _ in targets):
                eq_targets = [otherwise]
            if tv == 0 and not eq_targets:
                continue
            for t in eq_targets:
                other = [tt for v, tt in targets if tt != t] + ([otherwise] if otherwise != t else [])
                # bi reachable only through the equality edge
                if bi in b.reachable(0, cut_edges=[(sb, t)]):
                    continue
                d = ladd(x, y, -1)   # x - y == 0
                syms = [k for k in d if k != 1]
                if len(syms) == 1 and abs(d[syms[0]]) == 1:
                    s = syms[0]
                    sub[s] = lmulc({k: v for k, v in d.items() if k != s}, -d[s])
                elif len(syms) == 2:
                    s = sorted(syms, key=str)[-1]
                    sub[s] = lmulc({k: v for k, v in d.items() if k != s}, -1 // d[s] if d[s] in (1, -1) else 0)
        return sub
