"""Transparent helpers.

The rule tables in rules/props were written against the functions of the pinned tree (rules/known_fns.txt).  A
function that is *not* in that list was introduced by a later change; no rule can name it.  When such a function is
an ordinary, directly called fn (the "extract function" refactor, or a new helper added by a defect-introducing
change) it is spliced into each of its callers before any rule looks at them, so that

  * rules that look for sites (calls, stores, struct literals) inside a known function still find them,
  * rules that chase the provenance of an operand see through the helper's parameters,
  * census rules attribute the helper's effects to the known function that calls it, and
  * guard rules still see the helper as a call (the destination keeps a symbolic `call` definition, so
    lib.guard_edges_ip can summarise a helper that returns Ok/Some/true only under a guard).

On the pinned tree the set of transparent functions is empty and this module does nothing.

Splicing (classic MIR inlining, unwind edges dropped as everywhere else):
  caller block B:   `dest = h(a1..an) -> T`
becomes
  B:  p1' = use a1; ...; pn' = use an; goto entry'
  callee blocks with locals shifted by an offset; `return` -> goto C
  C:  dest = use(move ret')   [marked "inl": the original call terminator]; goto T
A generic `FnOnce/FnMut/Fn::call*` inside the callee whose callee-side receiver is one of the parameters is resolved
to the closure the caller passes for that parameter (needed for `with_x(|s| ...)`-style guard helpers).
"""
import copy
import os

MAX_DEPTH = 3
KNOWN_FILE = os.path.join(os.path.dirname(os.path.abspath(__file__)), "known_fns.txt")


def load_known():
    if not os.path.exists(KNOWN_FILE):
        return None
    with open(KNOWN_FILE) as f:
        return set(l.rstrip("\n") for l in f if l.strip() and (not l.startswith("#") or l.startswith("#crate ")))


# ------------------------------------------------------------------------------------------------ remapping
def _place(p, lo):
    out = []
    for i, e in enumerate(p):
        if i == 0:
            out.append(e + lo)
        elif isinstance(e, dict) and "i" in e:
            d = dict(e)
            d["i"] = e["i"] + lo
            out.append(d)
        else:
            out.append(e)
    return out


def _op(o, lo):
    if "c" in o:
        d = dict(o)
        d["c"] = _place(o["c"], lo)
        return d
    if "m" in o:
        d = dict(o)
        d["m"] = _place(o["m"], lo)
        return d
    return o


def _rvalue(r, lo):
    r = dict(r)
    for k in ("o", "a", "b"):
        if k in r and isinstance(r[k], dict):
            r[k] = _op(r[k], lo)
    if "p" in r and isinstance(r["p"], list):
        r["p"] = _place(r["p"], lo)
    if "ops" in r:
        r["ops"] = [_op(x, lo) for x in r["ops"]]
    return r


def _stmt(st, lo):
    st = dict(st)
    if "p" in st and isinstance(st["p"], list):
        st["p"] = _place(st["p"], lo)
    if "r" in st:
        st["r"] = _rvalue(st["r"], lo)
    return st


def _blk(x, bo):
    return x + bo if isinstance(x, int) else x


def _term(t, lo, bo, cont):
    t = dict(t)
    k = t["t"]
    if k == "return":
        return {"t": "goto", "to": cont, "l": t.get("l")}
    if k == "goto":
        t["to"] = _blk(t["to"], bo)
    elif k == "switch":
        t["o"] = _op(t["o"], lo)
        t["targets"] = [[v, _blk(tb, bo)] for v, tb in t["targets"]]
        t["otherwise"] = _blk(t["otherwise"], bo)
    elif k == "drop":
        t["p"] = _place(t["p"], lo)
        t["to"] = _blk(t["to"], bo)
        t["unwind"] = _blk(t.get("unwind"), bo)
    elif k == "assert":
        t["cond"] = _op(t["cond"], lo)
        t["to"] = _blk(t["to"], bo)
        t["unwind"] = _blk(t.get("unwind"), bo)
    elif k == "call":
        f = dict(t["f"])
        if "op" in f:
            f["op"] = _op(f["op"], lo)
        t["f"] = f
        t["args"] = [_op(a, lo) for a in t["args"]]
        t["dest"] = _place(t["dest"], lo)
        t["to"] = _blk(t["to"], bo)
        t["unwind"] = _blk(t.get("unwind"), bo)
    return t


# ------------------------------------------------------------------------------------------------ splicing
def _closure_of_operand(rec, o, depth=6):
    """the closure def a caller operand denotes (`move _5` with `_5 = closure-aggregate`, through moves)"""
    if "closure" in o:
        return o["closure"]
    if "fn" in o:
        return o["fn"]  # a fn item passed by value (`self.with_x(Self::inner)`)
    p = o.get("m") or o.get("c")
    if not p or len(p) != 1 or depth == 0:
        return None
    l = p[0]
    found = None
    n = 0
    for b in rec["blocks"]:
        for st in b["st"]:
            if st["s"] == "assign" and st["p"] == [l]:
                n += 1
                r = st["r"]
                if r["rv"] == "agg" and isinstance(r["kind"], dict) and "closure" in r["kind"]:
                    found = r["kind"]["closure"]
                elif r["rv"] in ("use", "cast"):
                    found = _closure_of_operand(rec, r["o"], depth - 1)
    return found if n == 1 else None


def _resolve_closure_calls(crec, nparams, arg_closures):
    """in the (copied) callee record: FnOnce::call_once(param_k, ..) -> the closure passed for param k"""
    if not any(arg_closures):
        return
    for b in crec["blocks"]:
        t = b["term"]
        if t["t"] != "call" or not t["args"]:
            continue
        d = t["f"].get("def", "")
        if not d.startswith("core::ops::function::Fn") or not d.rsplit("::", 1)[-1].startswith("call"):
            continue
        a0 = t["args"][0]
        p = a0.get("m") or a0.get("c")
        if not p:
            continue
        l = p[0]
        # receiver is the parameter itself or a reborrow `&mut param` (single hop)
        if not (1 <= l <= nparams):
            for bb in crec["blocks"]:
                for st in bb["st"]:
                    if st["s"] == "assign" and st["p"] == [l] and st["r"]["rv"] in ("ref", "use"):
                        q = st["r"].get("p") or (st["r"]["o"].get("m") or st["r"]["o"].get("c") if st["r"]["rv"] == "use" else None)
                        if q and 1 <= q[0] <= nparams:
                            l = q[0]
        if 1 <= l <= nparams and arg_closures[l - 1]:
            f = dict(t["f"])
            f["def"] = arg_closures[l - 1]
            f["via"] = d
            t["f"] = f


def inline_record(rec, get_rec, transparent, stack=(), depth=0):
    """returns (new_rec, [ids inlined]) or (rec, []) when nothing to do"""
    if depth > MAX_DEPTH:
        return rec, []
    sites = [i for i, b in enumerate(rec["blocks"])
             if b["term"]["t"] == "call" and b["term"].get("to") is not None and transparent(b["term"]["f"].get("def"))
             and b["term"]["f"].get("def") not in stack and b["term"]["f"].get("def") != rec["id"]
             and not b["term"]["f"].get("virt")]
    if not sites:
        return rec, []
    new = dict(rec)
    blocks = [dict(b) for b in rec["blocks"]]
    locs = list(rec["locals"])
    inlined = []
    for i in sites:
        t = blocks[i]["term"]
        d = t["f"]["def"]
        crec0 = get_rec(d)
        if crec0 is None or crec0["argc"] != len(t["args"]):
            continue
        crec, sub = inline_record(crec0, get_rec, transparent, stack + (rec["id"],), depth + 1)
        crec = copy.deepcopy(crec)
        _resolve_closure_calls(crec, crec["argc"], [_closure_of_operand({"blocks": blocks}, a) for a in t["args"]])
        lo = len(locs)
        bo = len(blocks)
        cont = bo + len(crec["blocks"])
        for l in crec["locals"]:
            locs.append(dict(l))
        line = t.get("l")
        pre = []
        for k, a in enumerate(t["args"]):
            st = {"s": "assign", "p": [lo + k + 1], "r": {"rv": "use", "o": a}, "inl_arg": d}
            if line is not None:
                st["l"] = line
            pre.append(st)
        for cb in crec["blocks"]:
            blocks.append({"st": [_stmt(s, lo) for s in cb["st"]], "term": _term(cb["term"], lo, bo, cont)})
        ret = {"s": "assign", "p": t["dest"], "r": {"rv": "use", "o": {"m": [lo]}}, "inl": t}
        if line is not None:
            ret["l"] = line
        blocks.append({"st": [ret], "term": {"t": "goto", "to": t["to"], "l": line}})
        blocks[i] = {"st": list(blocks[i]["st"]) + pre, "term": {"t": "goto", "to": bo, "l": line, "inl_call": d}}
        inlined.append(d)
        inlined += sub
    new["blocks"] = blocks
    new["locals"] = locs
    new["inlined"] = sorted(set(rec.get("inlined", []) + inlined))
    return new, inlined


# ------------------------------------------------------------------------------------------------ unknown closures
def _map_upvar_operand(o, ops):
    """closure operand rooted in a captured variable -> the creating function's operand/place; else an opaque constant"""
    p = o.get("m") or o.get("c")
    if p is None:
        return o
    if p[0] == 1 and len(p) >= 2:
        rest = p[1:]
        deref_self = rest and rest[0] == "*"
        if deref_self:
            rest = rest[1:]
        if rest and isinstance(rest[0], dict) and "up" in rest[0]:
            k = rest[0]["f"]
            if k < len(ops):
                cap = ops[k]
                cp = cap.get("m") or cap.get("c")
                if cp is not None:
                    return {"c": list(cp) + list(rest[1:])}
                if not rest[1:]:
                    return cap
    return {"k": "<closure-local>", "ty": "?"}


def project_closure_calls(rec, get_rec, unknown, depth=0):
    """For every closure created in `rec` that is unknown to the rule tables: its calls are projected onto the block
    that creates it, as a chain of pseudo call blocks placed right after the creating statement (creation = call, as in
    the call graph).  Returns (new_rec, [closure ids projected])."""
    sites = []
    for bi, b in enumerate(rec["blocks"]):
        for si, st in enumerate(b["st"]):
            if st["s"] == "assign" and st["r"]["rv"] == "agg" and isinstance(st["r"]["kind"], dict) and unknown(st["r"]["kind"].get("closure")):
                sites.append((bi, si, st["r"]["kind"]["closure"], st["r"]["ops"], st.get("l")))
    if not sites:
        return rec, []
    new = dict(rec)
    blocks = [dict(b) for b in rec["blocks"]]
    locs = list(rec["locals"])
    done = []
    # process from the last statement backwards so that statement indices stay valid
    for bi, si, cid, ops, line in sorted(sites, key=lambda x: (x[0], -x[1])):
        crec = get_rec(cid)
        if crec is None:
            continue
        calls = []

        def collect(cr, cops, d):
            for cb in cr["blocks"]:
                t = cb["term"]
                if t["t"] == "call" and "def" in t["f"]:
                    calls.append((t, cops, cr["id"]))
                for st in cb["st"]:
                    if d < 2 and st["s"] == "assign" and st["r"]["rv"] == "agg" and isinstance(st["r"]["kind"], dict) \
                            and unknown(st["r"]["kind"].get("closure")):
                        sub = get_rec(st["r"]["kind"]["closure"])
                        if sub is not None:
                            collect(sub, None, d + 1)
                            done.append(sub["id"])
        collect(crec, ops, 0)
        done.append(cid)
        if not calls:
            continue
        blk = blocks[bi]
        head = blk["st"][: si + 1]
        tail = blk["st"][si + 1:]
        term = blk["term"]
        first = len(blocks)
        n = len(calls)
        for k, (t, cops, owner) in enumerate(calls):
            dl = len(locs)
            locs.append({"ty": "?", "n": None})
            args = [(_map_upvar_operand(a, cops) if cops is not None else ({"k": "<closure-local>", "ty": "?"} if ("m" in a or "c" in a) else a)) for a in t["args"]]
            pt = {"t": "call", "f": dict(t["f"]), "args": args, "aty": t.get("aty", []), "dest": [dl], "to": first + k + 1, "unwind": None,
                  "l": t.get("l", line), "via_closure": owner}
            blocks.append({"st": [], "term": pt})
        blocks.append({"st": tail, "term": term})
        blocks[bi] = {"st": head, "term": {"t": "goto", "to": first, "l": line}}
    new["blocks"] = blocks
    new["locals"] = locs
    new["projected_closures"] = sorted(set(rec.get("projected_closures", []) + done))
    return new, done
