"""Truth tables of element-wise word operations (bit vectors).

A bit-vector operation such as `SimpleVob::or_minus` is an element-wise loop (or iterator chain / closure) whose body
combines words of `self`, `other`, `minus` with bitwise operators only.  Bitwise operators act on every bit position
independently, so the function computed for one word is decided by its truth table over the operand bits: the rule
evaluates the *expression tree* of the stored / returned value (symbolic chase of MIR temporaries) over {0,1}^k.  Any
syntactic form that computes the same Boolean function has the same table (`a & !b`, `a ^ (a & b)`, `!(!a | b)` ...), so
the rule is independent of how the operation is written; an expression it cannot interpret is *not judged* (None).
"""
import itertools

from . import facts as F

ROLES = "SOM"  # self, other (2nd parameter), third parameter


def _strip_iter(e):
    """peel adapters that do not change the item: into_iter, by_ref, &mut, copied/cloned"""
    while True:
        if e[0] in ("ref",) and False:
            return e
        if e[0] == "call":
            last = e[1].rsplit("::", 1)[-1]
            if last in ("into_iter", "by_ref", "copied", "cloned", "borrow_mut") and e[2]:
                e = e[2][0]
                continue
        return e


def _shape(b, e, depth=0):
    """item shape of an iterator expression: ('leaf', param) | ('pair', l, r) | ('idx',) | None"""
    if depth > 8 or e is None:
        return None
    e = _strip_iter(e)
    if e[0] == "call":
        last = e[1].rsplit("::", 1)[-1]
        if last == "zip" and len(e[2]) == 2:
            return ("pair", _shape(b, e[2][0], depth + 1), _shape(b, e[2][1], depth + 1))
        if last == "enumerate" and e[2]:
            return ("pair", ("idx",), _shape(b, e[2][0], depth + 1))
        if last in ("iter", "iter_mut", "deref", "deref_mut", "as_slice", "as_mut_slice", "as_ref", "as_mut") and e[2]:
            return _shape(b, e[2][0], depth + 1)
    if e[0] in ("ref", "place"):
        p = e[1]
        fs = F.place_fields(p)
        if isinstance(p[0], int) and 1 <= p[0] <= b.argc and fs and fs[-1][1] == "data":
            return ("leaf", p[0])
        if len(p) >= 2 and p[1] == "*":
            return _shape(b, b.expr_place([p[0]]), depth + 1)
        if len(p) == 1:
            ex = b.expr_place(p)
            if ex != e:
                return _shape(b, ex, depth + 1)
    return None


def _descend(shape, proj):
    """follow tuple-field projections (skipping Option's downcast/.0 of `next()`) into an item shape"""
    for el in proj:
        if shape is None:
            return None
        if el == "*":
            continue
        if isinstance(el, dict):
            if "dc" in el:
                continue
            if el.get("a", "").endswith("option::Option"):
                continue
            if "f" in el and "n" not in el:
                if shape[0] != "pair":
                    return None
                shape = shape[1 + el["f"]] if el["f"] in (0, 1) else None
                continue
            if "f" in el:
                return None
        else:
            # an index projection on a leaf keeps the leaf
            continue
    return shape


class WordFn:
    """one element-wise function: body `b` (the fn or one of its closures), `item` = how element places are resolved"""

    def __init__(self, P, fn_id):
        self.P = P
        self.fn = P.bodies[fn_id]
        allb = dict(getattr(P, "hidden", {}))
        allb.update(P.bodies)
        self.closures = [allb[i] for i in sorted(allb) if i.startswith(fn_id + "::{closure")]

    # -- which parameter's word does a place denote (in body `b`)?
    def leaf_role(self, b, p, _depth=0):
        if _depth > 6:
            return None
        root = p[0]
        if not isinstance(root, int):
            return None
        # direct: (*param).data[i]
        fs = F.place_fields(p)
        if b is self.fn and 1 <= root <= b.argc:
            if fs and fs[0][1] == "data":
                return root
            return None
        if b is not self.fn and root == 2:
            # closure item parameter: shape from the adapter call in the parent
            sh = self._closure_item_shape(b)
            s2 = _descend(sh, p[1:])
            return s2[1] if s2 and s2[0] == "leaf" else None
        ds = [d_ for d_ in b.defs().get(root, []) if d_[2] != "partial"]
        if len(ds) != 1:
            return None
        bi, si, kind, payload = ds[0]
        if kind == "call":
            d = payload["f"].get("def", "")
            last = d.rsplit("::", 1)[-1]
            if last == "next" and payload["args"]:
                sh = _shape(b, b.expr(payload["args"][0]))
                s2 = _descend(sh, p[1:])
                return s2[1] if s2 and s2[0] == "leaf" else None
            if last in ("deref", "deref_mut", "index", "index_mut", "get_unchecked", "get_unchecked_mut", "unwrap") and payload["args"]:
                e = b.expr(payload["args"][0])
                if e[0] in ("ref", "place"):
                    return self.leaf_role(b, e[1], _depth + 1)
                if e[0] == "call":
                    sh = _shape(b, e)
                    return sh[1] if sh and sh[0] == "leaf" else None
            return None
        if kind == "assign":
            r = payload
            if r["rv"] in ("use",):
                q = F.op_place(r["o"])
                if q is not None:
                    return self.leaf_role(b, q + p[1:], _depth + 1)
            if r["rv"] in ("ref", "rawptr"):
                q = r["p"]
                rest = p[1:]
                if rest and rest[0] == "*":
                    rest = rest[1:]
                return self.leaf_role(b, q + rest, _depth + 1)
        return None

    def _closure_item_shape(self, cb):
        for bi, t in self.fn.calls():
            for k, a in enumerate(t["args"]):
                e = self.fn.expr(a)
                if e[0] == "agg" and isinstance(e[1], dict) and e[1].get("closure") == cb.id or (e[0] == "closure" and e[1] == cb.id):
                    return _shape(self.fn, self.fn.expr(t["args"][0]))
        return None

    # -- evaluation over one bit
    def ev(self, b, e, env, depth=0):
        """value in {0,1} of expression e for one bit position, or None when not interpretable"""
        if depth > 24:
            return None
        k = e[0]
        if k == "const":
            v = e[1]
            if v == 0:
                return 0
            if v in (0xFFFFFFFF, 0xFFFFFFFFFFFFFFFF, -1):
                return 1
            return None
        if k == "un" and e[1] == "Not":
            a = self.ev(b, e[2], env, depth + 1)
            return None if a is None else 1 - a
        if k == "bin" and e[1] in ("BitOr", "BitAnd", "BitXor"):
            x, y = self.ev(b, e[2], env, depth + 1), self.ev(b, e[3], env, depth + 1)
            if x is None or y is None:
                return None
            return {"BitOr": x | y, "BitAnd": x & y, "BitXor": x ^ y}[e[1]]
        if k in ("place", "ref"):
            r = self.leaf_role(b, e[1])
            if r is None or r - 1 >= len(ROLES):
                return None
            return env.get(ROLES[r - 1])
        if k == "deref":
            return self.ev(b, e[1], env, depth + 1)
        if k == "call":
            last = e[1].rsplit("::", 1)[-1]
            if last in ("index", "index_mut", "get_unchecked", "get_unchecked_mut") and e[2] and e[2][0][0] in ("ref", "place"):
                r = self.leaf_role(b, e[2][0][1])
                return env.get(ROLES[r - 1]) if r is not None and r - 1 < len(ROLES) else None
            if last in ("clone", "deref", "not") and e[2]:
                a = self.ev(b, e[2][0], env, depth + 1)
                if last == "not":
                    return None if a is None else 1 - a
                return a
            if last in ("bitor", "bitand", "bitxor") and len(e[2]) == 2:
                x, y = self.ev(b, e[2][0], env, depth + 1), self.ev(b, e[2][1], env, depth + 1)
                if x is None or y is None:
                    return None
                return {"bitor": x | y, "bitand": x & y, "bitxor": x ^ y}[last]
        if k == "cast":
            return self.ev(b, e[1], env, depth + 1)
        return None

    def table(self, b, e, nvars):
        out = []
        for bits in itertools.product((0, 1), repeat=nvars):
            env = dict(zip(ROLES, bits))
            v = self.ev(b, e, env)
            if v is None:
                return None
            out.append(v)
        return tuple(out)

    # -- the function computed for a word of `self` by an in-place operation
    def stored_tables(self, nvars):
        """[(body, block, table|None)] for every store into a word of parameter 1 (self)"""
        out = []
        for b in [self.fn] + self.closures:
            for bi, si, st in b.statements():
                if st["s"] != "assign":
                    continue
                p = st["p"]
                if len(p) < 2:
                    continue
                if self.leaf_role(b, p) != 1:
                    continue
                if st["r"]["rv"] not in ("bin", "un", "use"):
                    continue
                e = b.expr_rvalue(st["r"])
                out.append((b, bi, self.table(b, e, nvars)))
        return out


def ret_expr(b):
    """symbolic value returned by body b (its single definition of _0)"""
    return b.expr_place([0])


def spec_table(fn, nvars):
    return tuple(fn(*bits) & 1 for bits in itertools.product((0, 1), repeat=nvars))
