"""C07 — every valid JSON instance in canonical form can be generated (structural clause: key order)."""
import json
import os
import subprocess

from .. import extract
from .. import facts as F
from .. import lib as L

JS = "llguidance::json::schema::"
JC = "llguidance::json::compiler::Compiler"
IM = "indexmap::map::IndexMap"
IS = "indexmap::set::IndexSet"

META = dict(
    explanation=(
        "Static analysis of type layouts, MIR call sites and the resolved build metadata. Decided clause: "
        "R1 the schema's key order is preserved end to end — ObjectSchema.properties / pattern_properties are "
        "IndexMap and required is IndexSet; no field of a json::schema type stores schema keys in a hash or "
        "tree map/set; compile_contents_inner collects the schema object into an IndexMap and "
        "compile_contents_map takes one; compile_const builds objects as IndexMap; gen_json_object iterates "
        "properties.keys() chained with the remaining required names in that order and hands the items, in "
        "that order, to ordered_sequence; and the resolved dependency graph enables serde_json's "
        "`preserve_order` feature for the llguidance package (without it serde_json::Map is a BTreeMap and the "
        "schema's order is lost before the compiler sees it); R2 the speculative row re-use watermark is reset to the "
        "current row count by every writer, so a merged multi-lexeme token of a valid instance is not dropped from the mask "
        "because a row of a sibling trie branch was re-used."
    ),
    not_decided="absence of over-strictness in general (the whole grammar semantics of every keyword); whitespace options",
)
META["explanation"] += (
    " Added after the independent seeding rounds 2-3: " 'R2 row re-use watermark values. R3 object-intersection operand pairing (shared with C06-R7). R4 the only token removed from every mask is the bare marker token or none (adopted from C19-R2).'
)


def ty_contains(t, names):
    k = t["k"]
    if k == "adt":
        if t["n"] in names:
            return t["n"]
        for a in t["args"]:
            r = ty_contains(a, names)
            if r:
                return r
    elif k in ("ref", "ptr", "slice", "array"):
        return ty_contains(t["t"], names)
    elif k == "tuple":
        for x in t["ts"]:
            r = ty_contains(x, names)
            if r:
                return r
    return None


def _load_toml_minimal(path):
    """very small TOML reader (tables, string/array/inline-table values on one line) used only when tomllib is missing"""
    import ast as _ast
    import re as _re
    out, cur = {}, None
    cur = out
    for line in open(path, encoding="utf-8"):
        line = line.split("#", 1)[0].strip() if '"' not in line else line.strip()
        if not line:
            continue
        m = _re.match(r"^\[([^\]]+)\]$", line)
        if m:
            cur = out
            for part in m.group(1).split("."):
                cur = cur.setdefault(part.strip().strip('"'), {})
            continue
        if "=" in line:
            k, v = line.split("=", 1)
            k, v = k.strip().strip('"'), v.strip()
            if v.startswith("{"):
                d = {}
                for kv in _re.findall(r'(\w+)\s*=\s*(\[[^\]]*\]|"[^"]*"|true|false)', v):
                    d[kv[0]] = True if kv[1] == "true" else (False if kv[1] == "false" else _ast.literal_eval(kv[1]))
                cur[k] = d
            else:
                try:
                    cur[k] = True if v == "true" else (False if v == "false" else _ast.literal_eval(v))
                except Exception:
                    cur[k] = v
    return out


def intersect_operands(ctx, R):
    """shared by C07 (valid instances stay reachable) and C06 (only valid instances are admitted)"""
    # ---- R3: object intersection (allOf / sibling applicators): each operand's property is intersected with what the
    # OTHER operand says about that key.  In Schema::intersect every `property_schema(obj, key)` must take `obj` from
    # one operand and `key` from the iteration over the other operand's `properties` (operands = parameters 1 and 2).
    isect = ctx.body(JS + "Schema::intersect")
    n_ps = 0
    for bi, t in isect.calls():
        if not t["f"].get("def", "").endswith("::property_schema") or len(t["args"]) < 3:
            continue
        n_ps += 1
        r_obj, r_key = L.role(isect, t["args"][1], depth=40), L.role(isect, t["args"][2], depth=40)
        side = lambda r: {x for x in ("param:1", "param:2") if x in r}
        so, sk = side(r_obj), side(r_key)
        ok = len(so) == 1 and len(sk) == 1 and so != sk and ".properties" in r_key
        ctx.check(ok, R, "intersect:property-looked-up-in-other-operand#%d" % n_ps,
                  "key from %s is looked up in %s" % (sorted(sk), sorted(so)),
                  "Schema::intersect looks a property key of operand %s up in operand %s (must be the other one): the key is matched "
                  "against its own (already emptied) object, so listed properties fall to additionalProperties and valid "
                  "instances are rejected" % (sorted(sk), sorted(so)), site=isect.where(bi))
    ctx.floor(R, "property_schema look-ups in Schema::intersect", n_ps, 2)



def key_literal_rule(ctx, R):
    """The literal the grammar demands for an object key must be exactly what a JSON serialiser writes for that key
    (quotes, `\\uXXXX` for controls, everything else verbatim): in gen_json_object every string handed to
    GrammarBuilder::string for a property name — and every name recorded as taken — is the result of serde_json's
    serialiser (directly or through the json_dumps helper).  Rust's `{:?}`, `escape_default`, or manual quoting agree with JSON
    on ASCII keys only."""
    P = ctx.prog
    b = ctx.try_body("llguidance::json::compiler::Compiler::gen_json_object", R)
    if b is None:
        return

    def origin(e, depth=0):
        """callee that produced the string behind expression e (through borrows, derefs, clones)"""
        if depth > 10:
            return None
        if e[0] == "call":
            last = e[1].rsplit("::", 1)[-1]
            if last in ("deref", "as_str", "as_ref", "borrow", "clone", "to_string", "to_owned", "into", "from", "as_bytes",
                        "unwrap", "expect", "unwrap_or_default", "unwrap_or_else", "unwrap_or", "branch") and e[2] and not e[1].startswith("serde_json"):
                return origin(e[2][0], depth + 1)
            return e[1]
        if e[0] == "deref":
            return origin(e[1], depth + 1)
        if e[0] in ("ref", "place") and isinstance(e[1][0], int):
            ds = [d for d in b.defs().get(e[1][0], []) if d[2] != "partial"]
            if len(ds) == 1 and ds[0][2] == "call":
                t = ds[0][3]
                return origin(("call", t["f"].get("def", ""), [b.expr(a) for a in t["args"]], ds[0][0]), depth + 1)
            if len(ds) == 1 and ds[0][2] == "assign":
                ex = b.expr_rvalue(ds[0][3])
                if ex != e:
                    return origin(ex, depth + 1)
        if e[0] == "cast":
            return origin(e[1], depth + 1)
        return None

    def is_json_ser(d):
        return bool(d) and (d.endswith("json::compiler::json_dumps") or (d.startswith("serde_json::") and "to_string" in d) or d.startswith("serde_json::ser::"))

    # key literals: GrammarBuilder::string calls inside the loop over properties (reachable from the properties iterator's next())
    sites = []
    for bi, t in b.calls():
        d = t["f"].get("def", "")
        if d.endswith("GrammarBuilder::string") and len(t["args"]) >= 2:
            o = origin(b.expr(t["args"][1]))
            if o is None:
                continue   # a constant such as "{" / "}" / separators
            sites.append((bi, "key literal", o))
        if d.rsplit("::", 1)[-1] == "push" and len(t["args"]) == 2:
            a0 = b.expr(t["args"][0])
            root = a0[1][0] if a0[0] in ("ref", "place") and isinstance(a0[1][0], int) else None
            if root is not None and b.local_ty(root).replace(" ", "") in ("alloc::vec::Vec<alloc::string::String>", "Vec<String>", "std::vec::Vec<std::string::String>"):
                o = origin(b.expr(t["args"][1]))
                if o is not None and b.locals[root].get("n") and "unquoted" not in (b.locals[root].get("n") or ""):
                    sites.append((bi, "taken name", o))
    n = 0
    for bi, what, o in sites:
        if o.endswith("::to_string") and not o.startswith("serde_json"):
            continue
        n += 1
        ctx.check(is_json_ser(o), R, "key-literal:json-serialised:%s@%s" % (what.replace(" ", "-"), n),
                  "the %s is produced by serde_json's serialiser (%s)" % (what, o.rsplit("::", 2)[-1]),
                  "gen_json_object builds the %s with `%s` instead of serde_json's serialiser: for keys with characters that Rust's own "
                  "escaping renders differently from JSON (combining marks, ZWJ, DEL, \\b, \\f ...) the grammar demands a literal no JSON "
                  "serialiser writes, and the real key is no longer excluded from additionalProperties" % (what, o), site=b.where(bi))
    ctx.floor(R, "property-name literals in gen_json_object", n, 2)


def run(ctx):
    P = ctx.prog
    obj = P.adts.get(JS + "ObjectSchema")
    if obj is None:
        ctx.violation("C07-R1", "anchor-missing:ObjectSchema", "struct ObjectSchema not found")
        return
    fields = {f["name"]: f for f in obj["variants"][0]["fields"]}
    for name, want in (("properties", IM), ("pattern_properties", IM), ("required", IS)):
        f = fields.get(name)
        ok = f is not None and f["t"]["k"] == "adt" and f["t"]["n"] == want
        ctx.check(ok, "C07-R1", "ordered-container:ObjectSchema." + name, "%s is %s" % (name, want.rsplit("::", 1)[1]),
                  "ObjectSchema.%s is %s: the schema's key order is lost, so instances serialised in schema order are rejected"
                  % (name, f["ty"] if f else "missing"), site="%s:%s" % (obj["file"], obj["line"]))
    # no unordered string-keyed container in any json::schema / json::compiler type
    UNORDERED = {"std::collections::hash::map::HashMap", "std::collections::hash::set::HashSet", "alloc::collections::btree::map::BTreeMap",
                 "alloc::collections::btree::set::BTreeSet", "hashbrown::map::HashMap", "hashbrown::set::HashSet"}
    UNORDERED_OK = {
        ("llguidance::json::compiler::Compiler", "definitions"): "reference -> node map, only looked up by key",
        ("llguidance::json::compiler::Compiler", "pending_definitions"): "worklist keyed by reference",
        ("llguidance::json::compiler::PatternPropertyCache", "inner"): "memo keyed by pattern",
        ("llguidance::json::schema::BuiltSchema", "definitions"): "reference -> schema map, only looked up by key",
        ("llguidance::json::shared_context::SharedContext", "defs"): "reference -> schema map, only looked up by key",
        ("llguidance::json::shared_context::SharedContext", "seen"): "visited set",
        ("llguidance::json::compiler::JsonCompileOptions", "retriever"): "not a container of keys",
        ("llguidance::json::compiler::Compiler", "general_unicode_string_cache"): "memo keyed by (min,max) length",
        ("llguidance::json::shared_context::BuiltSchema", "definitions"): "reference -> schema map, only looked up by key",
        ("llguidance::json::shared_context::PatternPropertyCache", "inner"): "memo keyed by pattern string",
    }
    n = 0
    for aid, a in sorted(P.adts.items()):
        if not aid.startswith(("llguidance::json::schema::", "llguidance::json::compiler::", "llguidance::json::shared_context::")):
            continue
        for v in a["variants"]:
            for f in v["fields"]:
                u = ty_contains(f["t"], UNORDERED)
                if not u:
                    continue
                n += 1
                key = (aid, f["name"])
                ctx.check(key in UNORDERED_OK, "C07-R1", "unordered-container:%s.%s" % (aid.rsplit("::", 1)[1], f["name"]),
                          UNORDERED_OK.get(key, ""),
                          "%s.%s is a %s: if it holds schema keys that are later iterated, the schema's key order is lost" % (aid, f["name"], f["ty"]),
                          site="%s:%s" % (a["file"], a["line"]))
    ctx.info("C07-R1", "unordered containers in json types: %d (all classified)" % n)
    # compile_contents_map takes an IndexMap, compile_contents_inner collects into one
    cm = ctx.body(JS + "compile_contents_map")
    ctx.check(cm.local_ty(2).startswith(IM), "C07-R1", "compile_contents_map:param-is-IndexMap", "schemadict: IndexMap",
              "compile_contents_map takes %s" % cm.local_ty(2), site=cm.where())
    ci = ctx.body(JS + "compile_contents_inner")
    col = [t for _, t in ci.calls() if t["f"].get("def", "").endswith("::collect") or "FromIterator" in t["f"].get("def", "")]
    ok = any(IM in (t["f"].get("full", "") + ci.local_ty(t["dest"][0])) for t in col)
    ctx.check(ok, "C07-R1", "compile_contents_inner:collects-IndexMap", "the schema object is collected into an IndexMap",
              "compile_contents_inner collects the schema object into %s" % [ci.local_ty(t["dest"][0]) for t in col], site=ci.where())
    unordered_locals = [d["ty"] for d in ci.locals if any(u in d["ty"] for u in ("BTreeMap", "HashMap<", "BTreeSet", "HashSet<"))]
    ctx.check(not unordered_locals, "C07-R1", "compile_contents_inner:no-unordered-intermediate", "no hash/tree map on the way from the JSON object to the IndexMap",
              "compile_contents_inner routes the schema object through %s: key order is lost" % unordered_locals[:1], site=ci.where())
    # the loop over keywords iterates the IndexMap itself
    it = [t for _, t in cm.calls() if t["f"].get("def", "").endswith("IndexMap::<K, V, S>::iter") or "indexmap" in t["f"].get("def", "") and t["f"]["def"].endswith("::iter")]
    ctx.check(bool(it), "C07-R1", "compile_contents_map:iterates-IndexMap", "keywords are processed in the schema's order (IndexMap::iter)",
              "compile_contents_map no longer iterates the ordered map", site=cm.where())
    cc = ctx.body(JS + "compile_const")
    scope = [cc] + [P.bodies[c] for c in P.closures_of(cc.id) if c in P.bodies]
    ok = False
    for sb in scope:
        for _, t in sb.calls():
            d = t["f"].get("full", "") + " " + (sb.local_ty(t["dest"][0]) if len(t["dest"]) == 1 else "")
            if ("collect" in t["f"].get("def", "") or "FromIterator" in t["f"].get("def", "")) and IM in d:
                ok = True
    ctx.check(ok, "C07-R1", "compile_const:IndexMap", "const/enum objects keep their key order (collected into IndexMap)",
              "compile_const no longer collects object members into an IndexMap", site=cc.where())
    # gen_json_object: properties.keys().chain(required.iter().filter(..)), in that order
    go = ctx.body(JC + "::gen_json_object")
    keys = [(bi, t) for bi, t in go.calls() if t["f"].get("def", "").endswith("IndexMap::<K, V, S>::keys")]
    riter = [(bi, t) for bi, t in go.calls() if t["f"].get("def", "").endswith("IndexSet::<T, S>::iter")]
    chain = [(bi, t) for bi, t in go.calls() if t["f"].get("def", "").endswith("Iterator::chain")]
    ok = bool(keys) and bool(riter) and bool(chain)
    if ok:
        e0 = go.expr(chain[0][1]["args"][0])
        e1 = go.expr(chain[0][1]["args"][1])
        ok = "IndexMap::<K, V, S>::keys" in repr(e0) and "IndexSet::<T, S>::iter" in repr(e1)
        k0 = go.expr(keys[0][1]["args"][0])
        r0 = go.expr(riter[0][1]["args"][0])
        ok = ok and F.place_fields(k0[1])[-1:] == [(JS + "ObjectSchema", "properties")] and F.place_fields(r0[1])[-1:] == [(JS + "ObjectSchema", "required")]
    ctx.check(ok, "C07-R1", "gen_json_object:iteration-order", "properties.keys() first, then the remaining required names",
              "gen_json_object no longer iterates properties.keys().chain(required.iter()...): object members are emitted in a different order", site=go.where())
    of = ctx.body(JC + "::object_fields")
    sites = go.call_blocks(of.id)
    # the vector handed to object_fields is the one the iteration pushes to (identified by data flow, not by name)
    handed = {L.root_local(go, go.expr(go.blocks[bi]["term"]["args"][1])) for bi in sites} - {None}
    pushed = {L.root_local(go, go.expr(t["args"][0])) for _, t in go.calls() if t["f"].get("def", "").endswith("Vec::<T, A>::push")} - {None}
    items = handed & pushed
    ctx.check(len(items) == 1 and len(handed) == 1, "C07-R1", "gen_json_object:items-to-object_fields", "the collected items are handed on in collection order",
              "gen_json_object no longer passes the vector it collects the members into to object_fields", site=go.where())
    osq = of.call_blocks(JC + "::ordered_sequence")
    ok = False
    for bi in osq:
        e = of.expr(of.blocks[bi]["term"]["args"][1])
        l = L.root_local(of, e)
        ok = ok or l == 2
    ctx.check(ok, "C07-R1", "object_fields:items-to-ordered_sequence", "object_fields passes its items unchanged to ordered_sequence",
              "object_fields no longer passes its items to ordered_sequence", site=of.where())
    # items is only ever pushed to (never sorted / reversed)
    bad = [t["f"]["def"] for _, t in go.calls() if t["f"].get("def", "").rsplit("::", 1)[-1] in ("sort", "sort_by", "sort_by_key", "sort_unstable", "reverse", "swap", "dedup")
           and L.root_local(go, go.expr(t["args"][0])) in handed]
    ctx.check(not bad, "C07-R1", "gen_json_object:items-not-reordered", "items is never sorted or reversed", "gen_json_object reorders items with %s" % bad, site=go.where())

    intersect_operands(ctx, "C07-R3")

    # ---- R5: a property name becomes a grammar literal through JSON serialisation, nothing else
    key_literal_rule(ctx, "C07-R5")

    # ---- R4: the only token removed from every mask is the bare marker token (or none): shared with C19-R2
    ctx.import_clauses("c19", "C19-R2", ["marker-"], "C07-R4")

    # ---- R2: a valid token must not disappear from the mask: speculative rows are never re-used across trie
    # branches (shared with C01-R2 / C11-R3; anchored file parser/src/earley/parser.rs)
    from . import c11 as _c11
    _c11.watermark_values(ctx, "C07-R2")

    # ---- serde_json preserve_order requested by llguidance's OWN manifest (workspace siblings enabling the feature do not
    # help a downstream crate that depends on llguidance alone).  The manifests are read directly — no cargo subprocess,
    # which could block on cargo's package-cache lock when several checks or builds run at once.
    repo = extract.REPO
    try:
        try:
            import tomllib as _toml
            load = lambda path: _toml.load(open(path, "rb"))
        except ImportError:  # pragma: no cover - minimal fallback for older interpreters
            load = _load_toml_minimal
        root = load(os.path.join(repo, "Cargo.toml"))
        members = root.get("workspace", {}).get("members", []) or ["."]
        import glob as _glob
        feats, found = None, False
        for m in members:
            for mdir in _glob.glob(os.path.join(repo, m)):
                mf = os.path.join(mdir, "Cargo.toml")
                if not os.path.exists(mf):
                    continue
                man = load(mf)
                if man.get("package", {}).get("name") != "llguidance":
                    continue
                found = True
                dep = man.get("dependencies", {}).get("serde_json")
                feats = []
                if isinstance(dep, dict):
                    feats = list(dep.get("features", []))
                    if dep.get("workspace"):
                        wd = root.get("workspace", {}).get("dependencies", {}).get("serde_json")
                        if isinstance(wd, dict):
                            feats += list(wd.get("features", []))
        ok = found and feats is not None and "preserve_order" in feats
        ctx.check(ok, "C07-R1", "serde_json:preserve_order", "llguidance's manifest requests serde_json with `preserve_order` (features: %s)" % (feats,),
                  "llguidance's own manifest no longer enables serde_json/preserve_order: serde_json::Map is a BTreeMap and schema key order is lost at parse time",
                  site="parser/Cargo.toml")
    except Exception as e:  # fail closed
        ctx.violation("C07-R1", "serde_json:preserve_order:manifest-unreadable", "could not read the manifests: %s" % e)
