"""C03 — allowed tokens never lead into a dead end (structural clauses)."""
from .. import facts as F
from .. import lib as L

NS = "llguidance::earley::parser::"
PS = NS + "ParserState"
SCR = NS + "Scratch"
RV = "llguidance::earley::regexvec::RegexVec"
TP = "llguidance::tokenparser::TokenParser"
JC = "llguidance::json::compiler::Compiler"
NUM = "llguidance::json::numeric::"
EMPT = "derivre::relevance::RelevanceCache::is_non_empty_limited"

META = dict(
    explanation=(
        "Static analysis over MIR (value-flow + dominance). Decided clauses: R1 every regex derivative "
        "that enters a lexer state has passed derivre's emptiness check — in transition_inner the "
        "only non-NO_MATCH definition of the pushed expression lies on the Ok(true) arm of "
        "is_non_empty_limited and the push is guarded by `!= NO_MATCH`; lexeme regexes are checked "
        "(or replaced by NO_MATCH) at construction; initial_state filters NO_MATCH; push_rx has "
        "exactly three callers; fuel exhaustion enters the sticky error state; R2 a new row's lexer "
        "start state is computed from scratch.push_allowed_lexemes, whose only writers are "
        "process_agenda and the skip-lexeme add in just_push_row; R3 compute_mask_inner returns "
        "Ok(mask) only for the forced singleton or when the mask is not all-zero (otherwise it stops "
        "with NoExtensionBias); R4 unsatisfiable numeric/string sub-schemas are rejected before a "
        "regex is generated (check_number_bounds dominates rx_int_range/rx_float_range; min>max and "
        "emptiness checks dominate the string regex); R5 the speculative row re-use watermark is reset to the "
        "current row count by every writer (a stale row lets the mask allow a token the commit rejects, which "
        "stops the engine in a non-accepting state)."
    ),
    not_decided=(
        "existence of a completion from every reachable state (needs grammar productivity and the "
        "exactness of derivre's emptiness decision — external crate)"
    ),
)
META["explanation"] += (
    " Added after the independent seeding rounds 2-3: " 'R6 slicer-shortcut soundness (shared with C01-R5 / C10-R1,R4): a token put into the mask by the shortcut must be consumable.'
)


def run(ctx):
    P = ctx.prog
    # ------------------------------------------------------------------ R1
    push = RV + "::push_rx"
    ctx.body(push)
    got = set(P.callers_of(push))
    exp = {RV + "::initial_state", RV + "::limit_state_to", RV + "::transition_inner"}
    ctx.check(got == exp, "C03-R1", "callers:push_rx", "push_rx has exactly the 3 expected callers",
              "callers of RegexVec::push_rx changed: unexpected %s missing %s" % (sorted(got - exp), sorted(exp - got)))
    ti = ctx.body(RV + "::transition_inner")
    pushes = ti.call_blocks(push)
    chk = ti.call_blocks(EMPT)
    if ctx.floor("C03-R1", "push_rx site in transition_inner", len(pushes), 1) and ctx.floor("C03-R1", "emptiness check in transition_inner", len(chk), 1):
        pb = pushes[0]
        t = ti.blocks[pb]["term"]
        arg = F.op_place(t["args"][2])
        # chase copies to the user variable
        l = arg[0]
        for _ in range(4):
            ds = ti.defs().get(l, [])
            if len(ds) == 1 and ds[0][2] == "assign" and ds[0][3]["rv"] == "use" and F.op_place(ds[0][3]["o"]):
                l = F.op_place(ds[0][3]["o"])[0]
            else:
                break
        defs = ti.defs().get(l, [])
        # success edges of the emptiness check: payload of Ok is true
        call_local = ti.blocks[chk[0]]["term"]["dest"][0]

        def ok_true(e):
            return e[0] == "place" and e[1][0] == call_local and any(isinstance(x, dict) and x.get("dc") == "Ok" for x in e[1][1:])

        edges = L.guard_edges(ti, ok_true, True)
        # the same filter written without the NO_MATCH replacement: the push itself sits under the positive outcome
        push_under_check = bool(edges) and bool(pushes) and not L.dominated_by_cut(ti, pushes, edges)
        n_nm = 1 if push_under_check else 0
        for (bi, si, kind, payload) in defs:
            is_nm = kind == "assign" and payload["rv"] == "use" and "NO_MATCH" in str(payload["o"].get("k", ""))
            if is_nm:
                n_nm += 1
                continue
            # the derivative itself: its definition must be unreachable without the Ok(true) edge,
            # or it is the raw derivative that is *re-assigned* before use
            if kind == "call" and payload["f"].get("def", "").endswith("DerivCache::derivative"):
                # raw derivative: every path from here to the push must pass a re-definition
                redefs = [d[0] for d in defs if d[0] != bi]
                bad = [] if push_under_check else L.must_pass(ti, [bi], redefs, targets=[pb])
                ctx.check(not bad, "C03-R1", "transition_inner:raw-derivative-rechecked",
                          "the raw derivative is re-assigned (checked value or NO_MATCH) on every path to push_rx",
                          "transition_inner can push a derivative that did not pass the emptiness check", site=ti.where(bi))
                continue
            still = L.dominated_by_cut(ti, [bi], edges) if edges else [bi]
            ctx.check(bool(edges) and not still, "C03-R1", "transition_inner:kept-only-if-non-empty",
                      "the pushed expression keeps the derivative only on the Ok(true) arm of is_non_empty_limited",
                      "transition_inner keeps a derivative without a positive emptiness check (a dead regex can stay in a lexer state: "
                      "tokens are allowed that can never complete a lexeme)", site=ti.where(bi))
        ctx.check(n_nm >= 1, "C03-R1", "transition_inner:empty-becomes-NO_MATCH", "an empty derivative is replaced by NO_MATCH",
                  "transition_inner no longer maps empty derivatives to NO_MATCH", site=ti.where())
        ne = L.guard_edges(ti, lambda e: e[0] == "call" and e[1].endswith("PartialEq::ne"), True)
        still = L.dominated_by_cut(ti, pushes, ne) if ne else pushes
        ctx.check(bool(ne) and not still, "C03-R1", "transition_inner:push-guarded-by-ne-NO_MATCH",
                  "push_rx is dominated by `d != NO_MATCH`", "transition_inner pushes NO_MATCH expressions into states", site=ti.where(pb))
        # fuel exhaustion -> error state
        ees = ti.call_blocks("derivre::regex::AlphabetInfo::enter_error_state")
        g = L.guard_edges(ti, lambda e: e[0] == "bin" and e[1] == "Eq" and L.is_field_read(RV, "fuel")(e[2]), True)
        ctx.check(bool(ees) and bool(g), "C03-R1", "transition_inner:fuel-zero-enters-error",
                  "fuel == 0 enters the sticky error state", "transition_inner no longer enters the error state when fuel is exhausted", site=ti.where())
        # Err arm zeroes the fuel
        fz = [bi for bi, si, st in ti.statements() if st["s"] == "assign" and F.place_fields(st["p"])[-1:] == [(RV, "fuel")]
              and st["r"]["rv"] == "use" and st["r"]["o"].get("iv") == "0"]
        ctx.check(bool(fz), "C03-R1", "transition_inner:err-arm-zeroes-fuel", "the Err arm of the emptiness check sets fuel = 0",
                  "the Err (fuel exhausted) arm of the emptiness check no longer forces the error state", site=ti.where())
    ins = ctx.body(RV + "::initial_state")
    pi = ins.call_blocks(push)
    ne = L.guard_edges(ins, lambda e: e[0] == "call" and e[1].endswith("PartialEq::ne"), True)
    still = L.dominated_by_cut(ins, pi, ne) if ne else pi
    ctx.check(bool(pi) and bool(ne) and not still, "C03-R1", "initial_state:filters-NO_MATCH", "initial_state pushes only `rx != NO_MATCH`",
              "initial_state no longer filters lexemes whose regex is empty (NO_MATCH)", site=ins.where())
    nw = ctx.body(RV + "::new_with_exprset")
    ck = nw.call_blocks(EMPT)
    nm = [bi for bi, si, st in nw.statements() if st["s"] == "assign" and st["r"]["rv"] == "use" and "NO_MATCH" in str(st["r"]["o"].get("k", ""))]
    ctx.check(bool(ck) and bool(nm), "C03-R1", "new_with_exprset:lexemes-checked",
              "every lexeme regex is emptiness-checked at construction and replaced by NO_MATCH when empty",
              "RegexVec construction no longer checks lexeme regexes for emptiness", site=nw.where())
    if ck and nm:
        call_local = nw.blocks[ck[0]]["term"]["dest"][0]

        def ok_false(e):
            return e[0] == "place" and e[1][0] == call_local and any(isinstance(x, dict) and x.get("dc") == "Ok" for x in e[1][1:])

        edges = L.guard_edges(nw, ok_false, False)
        still = L.dominated_by_cut(nw, nm, edges) if edges else nm
        ctx.check(bool(edges) and not still, "C03-R1", "new_with_exprset:NO_MATCH-on-Ok-false",
                  "NO_MATCH is assigned exactly on the Ok(false) arm", "the NO_MATCH replacement is not tied to the Ok(false) arm", site=nw.where(nm[0]))
        # the Err arm bails
        w = nw.call_blocks(lambda d: d.startswith("anyhow::") and ("format_err" in d or d.endswith("::msg")))
        ctx.check(bool(w), "C03-R1", "new_with_exprset:err-arm-bails", "fuel exhaustion during the relevance check is an error",
                  "construction no longer fails when the relevance check runs out of fuel", site=nw.where())

    # ------------------------------------------------------------------ R2
    jpr = ctx.body(PS + "::just_push_row")
    ss = jpr.call_blocks("llguidance::earley::lexer::Lexer::start_state")
    if ctx.floor("C03-R2", "Lexer::start_state call in just_push_row", len(ss), 1):
        e = jpr.expr(jpr.blocks[ss[0]]["term"]["args"][1])
        ok = e[0] in ("ref", "place") and F.place_fields(e[1])[-1:] == [(SCR, "push_allowed_lexemes")]
        ctx.check(ok, "C03-R2", "row-start-state-from-allowed-lexemes",
                  "the new row's lexer start state is start_state(&scratch.push_allowed_lexemes)",
                  "just_push_row computes the lexer start state from %s, not from the lexemes the new row can scan" % F.fmt_expr(e), site=jpr.where(ss[0]))
    ws = set()
    for b in P.bodies.values():
        if P._is_code(b):
            w, m, r = P.own_effects(b)
            if (SCR, "push_allowed_lexemes") in w or any(x[0] == (SCR, "push_allowed_lexemes") for x in m):
                ws.add(b.id)
    exp = {PS + "::process_agenda", PS + "::just_push_row"}
    ctx.check(ws == exp, "C03-R2", "push_allowed_lexemes:writers", "written only by process_agenda and just_push_row (skip lexeme)",
              "writers of scratch.push_allowed_lexemes changed: unexpected %s missing %s" % (sorted(ws - exp), sorted(exp - ws)))
    pa = ctx.body(PS + "::process_agenda")
    clr = [bi for bi, (w, m, r) in P.block_effects(pa).items() if any(x[0] == (SCR, "push_allowed_lexemes") and x[1].endswith("LexemeSet::clear") for x in m)]
    add = [bi for bi, (w, m, r) in P.block_effects(pa).items() if any(x[0] == (SCR, "push_allowed_lexemes") and x[1].endswith("LexemeSet::add") for x in m)]
    ok = bool(clr) and bool(add) and all(a not in pa.reachable(0, cut_blocks=clr) for a in add)
    ctx.check(ok, "C03-R2", "process_agenda:clear-then-add", "process_agenda clears the set before adding the lexemes at the dot",
              "process_agenda adds to push_allowed_lexemes without clearing it first (stale lexemes of the previous row stay scannable)", site=pa.where())
    # just_push_row is called after process_agenda in every caller (push_row)
    callers = P.callers_of(jpr.id)
    AGENDA_EXC = {
        PS + "::scan_skip_lexeme": "SKIP lexeme: the current row is copied and its stored lexer_start_state is re-used (lex_start = Some); "
                                   "the max_tokens arm recomputes through process_max_tokens -> process_agenda",
    }
    for c in callers:
        b = P.bodies[c]
        sites = b.call_blocks(jpr.id)
        pas = b.call_blocks(pa.id)
        if c in AGENDA_EXC:
            pm = PS + "::process_max_tokens"
            ok = pm in P.callgraph().get(c, ()) and pa.id in P.reachable_from([pm])
            ctx.check(ok, "C03-R2", "agenda-before-push:" + c.rsplit("::", 1)[1], "exception: " + AGENDA_EXC[c],
                      "%s no longer recomputes the agenda on its max_tokens arm" % c, site=b.where(sites[0]))
            continue
        still = [s for s in sites if s in b.reachable(0, cut_blocks=pas)]
        ctx.check(not still, "C03-R2", "agenda-before-push:" + c.rsplit("::", 1)[1], "process_agenda dominates just_push_row",
                  "%s pushes a row without running process_agenda first" % c, site=b.where(sites[0]))
    ctx.floor("C03-R2", "callers of just_push_row", len(callers), 1)

    # ------------------------------------------------------------------ R5 speculative row re-use watermark
    # (a stale re-used row makes the mask allow tokens the commit path rejects: the engine then stops in a
    # non-accepting state; shared with C11-R3 / C01-R2 / C02-R3)
    from . import c11 as _c11
    _c11.watermark_values(ctx, "C03-R5")
    # R6: a token put into the mask by the slicer shortcut must be consumable (otherwise the model is led into a dead end):
    # the shortcut's two soundness conditions (shared with C10-R1/R4, C01-R5, C02-R4)
    from . import c10 as _c10
    _c10.subsume_guard(ctx, "C03-R6")
    _c10.subsume_operands(ctx, "C03-R6")
    # R7: after token healing the mask is computed for the bytes given back; if that count is wrong every allowed token is
    # rejected on commit (dead end) — adopted from C13-R6
    ctx.import_clauses("c13", "C13-R6", ["chop_tokens:"], "C03-R7")
    # R8: the pre-computed slice masks know nothing about a pending forced prefix: they may be OR-ed in only when `start` is
    # empty (otherwise the mask admits tokens that commit rejects: dead end) — adopted from C10-R1
    ctx.import_clauses("c10", "C10-R1", ["compute_bias:apply-under:", "apply:or-under-matches"], "C03-R8")

    # ------------------------------------------------------------------ R3 empty mask => stop
    cm = ctx.body(TP + "::compute_mask_inner")
    oks = []
    for bi, si, st in cm.statements():
        if st["s"] == "assign" and st["p"] == [0] and st["r"]["rv"] == "agg" and isinstance(st["r"]["kind"], dict) and st["r"]["kind"].get("variant") == "Ok":
            oks.append(bi)
    if ctx.floor("C03-R3", "Ok(mask) returns in compute_mask_inner", len(oks), 2):
        sing = set(cm.call_blocks("toktrie::toktree::TokTrie::singleton_token_set"))
        nz = L.guard_edges(cm, L.is_call_to("toktrie::svob::SimpleVob::is_zero"), False)
        n_other = 0
        for o in oks:
            # forced singleton return: dominated by the singleton call
            if sing and o not in cm.reachable(0, cut_blocks=sing):
                ctx.ok("C03-R3", "ok-return@%s" % cm.where(o).rsplit(":", 1)[1], "forced-token singleton (never empty)", site=cm.where(o))
                continue
            n_other += 1
            still = L.dominated_by_cut(cm, [o], nz) if nz else [o]
            ctx.check(bool(nz) and not still, "C03-R3", "ok-return@%s" % cm.where(o).rsplit(":", 1)[1],
                      "Ok(mask) is dominated by the false edge of allowed_tokens.is_zero()",
                      "compute_mask_inner can return Ok with an all-zero mask instead of stopping", site=cm.where(o))
        ctx.floor("C03-R3", "general Ok(mask) returns", n_other, 1)
        # the is_zero true edge leads to stop()
        z = L.guard_edges(cm, L.is_call_to("toktrie::svob::SimpleVob::is_zero"), True)
        stops = cm.call_blocks(TP + "::stop")
        hit = bool(z) and all(any(s in cm.reachable(t) for s in stops) for (_, t) in z)
        ctx.check(hit, "C03-R3", "zero-mask-stops", "an all-zero mask stops the engine (NoExtensionBias)",
                  "an all-zero mask no longer puts the engine into the stopped state", site=cm.where())

    # ------------------------------------------------------------------ R4 unsatisfiable sub-schemas rejected first
    cnb = NUM + "check_number_bounds"
    n = 0
    for target in (NUM + "rx_int_range", NUM + "rx_float_range"):
        for c in P.callers_of(target):
            if c.startswith(NUM):
                continue
            b = P.bodies[c]
            sites = b.call_blocks(target)
            n += len(sites)
            g = L.guard_edges(b, lambda e: e[0] == "call" and (e[1] == cnb or (e[1].endswith("Result::<T, E>::map_err") and e[2] and e[2][0][0] == "call" and e[2][0][1] == cnb)), True)
            still = L.dominated_by_cut(b, sites, g) if g else sites
            ctx.check(bool(g) and not still, "C03-R4", "%s:bounds-checked-before-%s" % (c.rsplit("::", 1)[1], target.rsplit("::", 1)[1]),
                      "%s is dominated by the Ok arm of check_number_bounds" % target.rsplit("::", 1)[1],
                      "%s generates a numeric regex without a successful check_number_bounds: contradictory bounds compile to a "
                      "constraint with no (or wrong) completions" % c, site=b.where(sites[0]))
    ctx.floor("C03-R4", "numeric regex generation sites outside numeric.rs", n, 2)
    gs = ctx.body(JC + "::gen_json_string")
    jq = gs.call_blocks(JC + "::json_quote")
    # min_length > max_length guard: all json_quote sites are after the false edge of that comparison (when max is Some)
    gt = L.guard_edges(gs, lambda e: e[0] == "bin" and e[1] == "Gt", False)
    some_none = []
    for bi, e, targets, otherwise in gs.switch_edges():
        if e[0] == "discr" and e[1][0] in ("place", "local"):
            # first discriminant switch in the function is `if let Some(max_length) = max_length`
            some_none.append((bi, targets, otherwise))
    if ctx.floor("C03-R4", "json_quote sites in gen_json_string", len(jq), 2):
        cut = list(gt)
        if some_none:
            bi, targets, otherwise = sorted(some_none)[0]
            zero = [t for v, t in targets if v == 0]
            cut.append((bi, zero[0] if zero else otherwise))
        still = L.dominated_by_cut(gs, jq, cut) if gt else jq
        ctx.check(bool(gt) and not still, "C03-R4", "gen_json_string:min-le-max",
                  "every string regex is generated after `min_length > max_length` was ruled out (or maxLength is absent)",
                  "gen_json_string builds a regex although minLength > maxLength was not excluded", site=gs.where())
    ae = gs.call_blocks(lambda d: d.endswith("Regex::always_empty"))
    ip = gs.call_blocks(lambda d: d.endswith("ExprSet::is_positive"))
    ctx.check(bool(ae) and bool(ip), "C03-R4", "gen_json_string:emptiness-check-present",
              "non-positive pattern regexes are checked with is_positive / always_empty",
              "gen_json_string no longer checks pattern ∧ length regexes for emptiness", site=gs.where())
    if ae:
        # the final json_quote (pattern path) must be unreachable from the `always_empty() == true` edge
        te = L.guard_edges(gs, lambda e: e[0] == "call" and e[1].endswith("Regex::always_empty"), True)
        reach = set()
        for (_, t) in te:
            reach |= gs.reachable(t)
        ctx.check(bool(te) and not (reach & set(jq)), "C03-R4", "gen_json_string:empty-regex-rejected",
                  "an always-empty pattern cannot reach regex generation", "gen_json_string generates a string lexeme for an always-empty pattern", site=gs.where())
    # the syntactic fast path that lets gen_json_string skip that check: `always_non_empty` may answer `true` only for
    # AST shapes that cannot denote the empty language.  A regex string, an expression reference, an intersection, a
    # complement and NoMatch can (`[^\\s\\S]`, `a & b`): for those variants the answer must be the constant `false`
    # (decided on the variant table of the match: discriminant value -> variant name is taken from the type, the value
    # returned on that arm from the CFG).
    ane = ctx.try_body("llguidance::json::compiler::always_non_empty", "C03-R4")
    if ane is not None:
        MAY_BE_EMPTY = ("And", "Not", "NoMatch", "Regex", "SearchRegex", "ExprRef")
        table = None
        for sb, e, targets, otherwise in ane.switch_edges():
            if e[0] != "discr":
                continue
            for st in ane.blocks[sb]["st"]:
                if st["s"] == "assign" and st["r"].get("rv") == "discr" and st["r"].get("adt", "").endswith("RegexAst") and st["r"].get("vn"):
                    names = {int(v): n for v, n in st["r"]["vn"]}
                    table = {names[int(v)]: t for v, t in targets if int(v) in names}
                    for v, n in names.items():
                        table.setdefault(n, otherwise)
            if table:
                break
        if not table:
            ctx.violation("C03-R4", "always_non_empty:variant-table", "always_non_empty no longer dispatches on the RegexAst variant (table not found)", site=ane.where())
        else:
            def arm_result(t0):
                """'false' | 'true' | 'computed' for the arm starting at block t0 (up to the join with other arms)"""
                others = {t for n, t in table.items() if t != t0}
                seen, todo, res = set(), [t0], set()
                while todo:
                    x = todo.pop()
                    if x in seen or x in others:
                        continue
                    seen.add(x)
                    for st in ane.blocks[x]["st"]:
                        if st["s"] == "assign" and st["p"] == [0]:
                            ev = ane.expr_rvalue(st["r"])
                            res.add({0: "false", 1: "true"}.get(ev[1], "computed") if ev[0] == "const" else "computed")
                    tt = ane.blocks[x]["term"]
                    if tt["t"] == "call" and tt.get("dest") == [0]:
                        res.add("computed")
                    # stop at the common join (a block with more than one predecessor that is reached from other arms too)
                    for y in ane.succs(x):
                        if len(ane.preds(y)) > 1 and not res:
                            todo.append(y)
                        elif len(ane.preds(y)) <= 1:
                            todo.append(y)
                return res
            bad = []
            for n in MAY_BE_EMPTY:
                if n not in table:
                    continue
                r = arm_result(table[n])
                if r != {"false"}:
                    bad.append("%s -> %s" % (n, "/".join(sorted(r)) or "?"))
            ctx.check(not bad and sum(1 for n in MAY_BE_EMPTY if n in table) >= 5, "C03-R4", "always_non_empty:may-be-empty-variants-answer-false",
                      "always_non_empty answers the constant false for %s" % ", ".join(MAY_BE_EMPTY),
                      "always_non_empty answers %s: a pattern that denotes the empty language (e.g. `[^\\s\\S]`) skips the emptiness check, the "
                      "schema compiles, and the property/array item leads into a state with an empty mask" % "; ".join(bad), site=ane.where())

