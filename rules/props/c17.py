"""C17 — the C API returns what the Rust API returns and stays inside caller buffers (clauses)."""
from .. import facts as F
from .. import lib as L

FFI = "llguidance::ffi::"
SV = "toktrie::svob::SimpleVob::"
CU = "llguidance::panic_utils::catch_unwind"

META = dict(
    explanation=(
        "Static analysis over the MIR of every body in ffi.rs / ffi_par.rs. Decided clauses: R1 unit "
        "discipline of raw copies — the element count of every ptr::copy_nonoverlapping is the len() of "
        "the very object whose as_ptr() is the source, in the source's element unit (SimpleVob::len is "
        "bits, as_slice().len() is 32-bit words); R2 bounds — every raw write into a caller pointer is "
        "limited by min(_, caller length) or by an equality check of the byte size against the caller "
        "length that dominates the copy; zero-fill and single-element stores stay below the caller "
        "length (offset+count == cap, offset <= cap-1 under cap != 0, or a dominating offset < cap); "
        "R3 null checks dominate every raw use of a caller pointer; R4 panic containment — every call "
        "from an extern \"C\" body is to a panic-containing wrapper (catch_unwind, ffi_guard_*, "
        "LlgMatcher::wrap, Constraint::compute_mask/commit_token, Matcher methods using with_inner), to "
        "an allow-listed total accessor, or is reported; R5 wrapper correspondence — each llg_matcher_* "
        "/ llg_* wrapper calls exactly the engine method it is named after; R6 returned pointers are "
        "owned by the handle (field of a parameter), a static, a fresh Box::into_raw or null."
    ),
    not_decided="value equality of C results with the Rust API (wrappers are thin; R5 only fixes which method is called)",
)
META["explanation"] += (
    " Added after the independent seeding rounds 2-3: " 'R7 every (pointer, length) pair passed OUT to a C callback takes the length from the very buffer whose pointer is passed. R8 the engine mask holds only real token ids (clauses adopted from C16-R1). Helper extraction inside ffi.rs is transparent (null obligations are charged to call sites, local helpers are analysed as part of the extern fn).'
)

LEN_ELEM = ("core::slice::<impl [T]>::len", "alloc::vec::Vec::<T, A>::len", "core::str::<impl str>::len", "alloc::string::String::len")
ASPTR = ("core::slice::<impl [T]>::as_ptr", "alloc::vec::Vec::<T, A>::as_ptr", "core::str::<impl str>::as_ptr", SV + "as_ptr")


NULL_EXC = {
    ("llguidance::ffi::llg_par_compute_mask", "steps"): "`steps.is_null() && n_steps != 0` bails and `n_steps == 0` takes the empty arm, "
                                                        "so from_raw_parts only sees a non-null pointer",
}


def strip(e):
    while e[0] == "cast":
        e = e[1]
    return e


def norm(body, e):
    """normalise a view expression for same-object comparison"""
    e = strip(e)
    if e[0] in ("ref", "place") and len(e[1]) == 1:
        return ("L", e[1][0])
    if e[0] == "call" and e[1].endswith(L.VIEW_CALLS) and e[2]:
        return ("V", e[1].rsplit("::", 1)[1], norm(body, e[2][0]))
    if e[0] == "call":
        return ("C", e[1], tuple(norm(body, a) for a in e[2]))
    if e[0] in ("ref", "place"):
        return ("P", repr(e[1]))
    if e[0] == "agg":
        return ("A", tuple(norm(body, a) for a in e[2]))
    if e[0] == "const":
        return ("K", e[3])
    if e[0] == "deref":
        return norm(body, e[1])
    return ("?", repr(e)[:80])


def min_leaves(e):
    e = strip(e)
    if e[0] == "call" and (e[1].startswith("core::cmp::min") or e[1].endswith("::min")) and len(e[2]) == 2:
        return min_leaves(e[2][0]) + min_leaves(e[2][1])
    return [e]


def is_param_derived(body, e, depth=0):
    """expression built only from parameters / captured variables / constants"""
    e = strip(e)
    if depth > 8:
        return False
    k = e[0]
    if k == "const":
        return True
    if k in ("place", "ref"):
        l = e[1][0]
        if 1 <= l <= body.argc:
            return True
        fs = F.place_fields(e[1])
        if fs and fs[-1][0].startswith("llguidance::ffi::Llg"):
            return True  # field of a caller-supplied C struct (e.g. LlgConstraintStep.mask_byte_len)
        if body.locals[l].get("n") and len(body.defs().get(l, [])) == 1:
            v = body.expr_place([l])
            return v != e and is_param_derived(body, v, depth + 1)
        return False
    if k == "bin":
        return is_param_derived(body, e[2], depth + 1) and is_param_derived(body, e[3], depth + 1)
    if k == "local":
        return 1 <= e[1] <= body.argc
    if k == "deref":
        return is_param_derived(body, e[1], depth + 1)
    return False


def expand(body, e, depth=0):
    """expand named single-definition locals so that the provenance of a capacity is visible"""
    e = strip(e)
    if depth > 6:
        return e
    if e[0] in ("place", "ref") and len(e[1]) == 1 and not (1 <= e[1][0] <= body.argc):
        l = e[1][0]
        if len(body.defs().get(l, [])) == 1:
            v = body.expr_place([l])
            if v != e and v[0] != "local":
                return expand(body, v, depth + 1)
    if e[0] == "bin":
        return ("bin", e[1], expand(body, e[2], depth + 1), expand(body, e[3], depth + 1))
    return e


def byte_names(body, e):
    """names of byte-unit sources (parameters / fields called *byte*) mentioned by e"""
    out = []
    e = strip(e)
    if e[0] in ("place", "ref"):
        l = e[1][0]
        n = body.locals[l].get("n") or ""
        if "byte" in n:
            out.append(n)
        for x in e[1][1:]:
            if isinstance(x, dict):
                for k in ("n", "up"):
                    if "byte" in str(x.get(k, "")):
                        out.append(x[k])
    elif e[0] == "bin":
        out += byte_names(body, e[2]) + byte_names(body, e[3])
    elif e[0] == "deref":
        out += byte_names(body, e[1])
    return out


def byte_cap_without_division(body, e, elem_size):
    """True if e is derived from a byte-count source and is used as an element count of elem_size>1
    without a division by elem_size"""
    if elem_size <= 1:
        return False
    x = expand(body, e)

    def walk(x, divided):
        x = strip(x)
        if x[0] == "bin" and x[1] == "Div" and x[3][0] == "const" and x[3][1] == elem_size:
            return walk(x[2], True)
        if x[0] == "bin":
            return walk(x[2], divided) or walk(x[3], divided)
        return bool(byte_names(body, x)) and not divided

    return walk(x, False)


def elem_size_of_ptr(ty):
    for k, v in (("u32", 4), ("i32", 4), ("u64", 8), ("usize", 8), ("u16", 2), ("u8", 1), ("i8", 1), ("c_char", 1)):
        if ty.replace(" ", "").endswith(k):
            return v
    return 1


def count_exprs(body, arg):
    """expressions a count operand may evaluate to (multi-definition locals expanded)"""
    e = body.expr(arg)
    if e[0] == "local" or (e[0] == "place" and len(e[1]) == 1 and len(body.defs().get(e[1][0], [])) > 1):
        l = e[1] if e[0] == "local" else e[1][0]
        out = []
        for (bi, si, kind, payload) in body.defs().get(l, []):
            if kind == "assign":
                out.append(body.expr_rvalue(payload))
            elif kind == "call":
                out.append(("call", payload["f"].get("def", "?"), [body.expr(a) for a in payload["args"]], bi))
        return out, l
    return [e], None


def run(ctx):
    P = ctx.prog
    bodies = [b for i, b in sorted(P.bodies.items()) if i.startswith(("llguidance::ffi::", "llguidance::ffi_par::")) and P._is_code(b)]
    ctx.floor("C17", "bodies in ffi.rs / ffi_par.rs", len(bodies), 105 if ctx.config == "default" else 95)

    # ------------------------------------------------------------------ R1 / R2 raw copies
    n_copy = 0
    for b in bodies:
        for bi, t in b.calls():
            d = t["f"].get("def", "")
            if not d.endswith("ptr::copy_nonoverlapping"):
                continue
            n_copy += 1
            inst = "%s@copy" % b.id.replace("llguidance::", "")
            src = strip(b.expr(t["args"][0]))
            dst = strip(b.expr(t["args"][1]))
            cexprs, cl = count_exprs(b, t["args"][2])
            # struct prefix copy (llg_new_tokenizer_v2): dst is the address of a local, count bounded by size_of
            if dst[0] == "ref" and len(dst[1]) == 1 and not (1 <= dst[1][0] <= b.argc):
                ok = all(any(x[0] == "call" and "size_of" in x[1] for x in min_leaves(c)) for c in cexprs)
                ctx.check(ok, "C17-R2", inst + ":struct-prefix", "copy into a local struct is bounded by size_of::<T>()",
                          "raw copy into a local of %s is not bounded by its size" % b.id, site=b.where(bi))
                continue
            src_obj = None
            src_is_vob = False
            if src[0] == "call" and src[1] in ASPTR and src[2]:
                src_obj = norm(b, src[2][0])
                src_is_vob = src[1] == SV + "as_ptr"
            ctx.check(src_obj is not None, "C17-R1", inst + ":source-is-as_ptr", "source pointer is <obj>.as_ptr()",
                      "raw copy source %s is not the as_ptr() of an owned slice" % F.fmt_expr(src), site=b.where(bi))
            unit_ok, cap_ok, why = True, True, []
            for c in cexprs:
                if c[0] == "const" and c[1] == 0:
                    continue
                leaves = min_leaves(c)
                has_len = False
                has_cap = False
                for lf in leaves:
                    lf = strip(lf)
                    if lf[0] == "call" and lf[1] == SV + "len":
                        unit_ok = False
                        why.append("SimpleVob::len() counts BITS but the copy counts 32-bit words")
                    elif lf[0] == "call" and lf[1] in LEN_ELEM and lf[2]:
                        o = norm(b, lf[2][0])
                        same = o == src_obj or (src_is_vob and o == ("V", "as_slice", src_obj)) or (src_is_vob and o[0] == "V" and o[2] == src_obj)
                        if same:
                            has_len = True
                        else:
                            why.append("len() of a different object than the source (%s vs %s)" % (o, src_obj))
                    elif is_param_derived(b, lf):
                        has_cap = True
                        esz = elem_size_of_ptr(t["aty"][1])
                        if byte_cap_without_division(b, lf, esz):
                            cap_ok = False
                            why.append("caller length `%s` is in BYTES but bounds a count of %d-byte elements" % (F.fmt_expr(expand(b, lf)), esz))
                if not has_len:
                    unit_ok = False
                    if not why:
                        why.append("count `%s` is not bounded by the source's own len()" % F.fmt_expr(c))
                if not has_cap:
                    # alternative: equality of byte size with the caller length dominates (compute_mask_into)
                    g = L.guard_edges(b, lambda e: e[0] == "bin" and e[1] == "Eq" and "size_of_val" in repr(e) , True)
                    still = L.dominated_by_cut(b, [bi], g) if g else [bi]
                    if g and not still:
                        has_cap = True
                    else:
                        cap_ok = False
            ctx.check(unit_ok, "C17-R1", inst + ":count-is-source-len",
                      "the element count is the len() of the copied object, in its element unit",
                      "raw copy in %s: %s — the copy can read past the source" % (b.id, "; ".join(why) or "unit mismatch"), site=b.where(bi))
            ctx.check(cap_ok, "C17-R2", inst + ":count-bounded-by-caller-length",
                      "the element count is min(_, caller length in elements) or the byte size is checked against the caller length",
                      "raw copy in %s is not bounded by the caller-supplied buffer length%s" % (b.id, (": " + "; ".join(w for w in why if "BYTES" in w)) if any("BYTES" in w for w in why) else ""),
                      site=b.where(bi))
    # The number of raw-copy sites is not an invariant (two entry points may share one helper); what must not happen is
    # that the rule goes blind. So: a low sanity floor on sites, and every extern "C" function with a caller-supplied
    # output buffer (a `*mut` scalar parameter) must reach at least one analysed raw write (copy / fill / store through
    # add / bounded helper) within ffi.rs / ffi_par.rs.
    ctx.floor("C17-R1", "copy_nonoverlapping sites", n_copy, 5)
    by_id = {b.id: b for b in bodies}
    def has_raw_write(b):
        for bi, t in b.calls():
            d = t["f"].get("def", "")
            if d.endswith(("ptr::copy_nonoverlapping", "ptr::write_bytes")) or d.endswith("ptr::mut_ptr::<impl *mut T>::add"):
                return True
        return False
    n_out = 0
    for b in bodies:
        if not str(b.rec.get("abi", "")).startswith("C"):
            continue
        outs = [b.local_name(p) for p in range(1, b.argc + 1)
                if b.local_ty(p).replace(" ", "") in ("*mutu32", "*mutu8", "*muti8", "*mutc_char", "*mutcore::ffi::c_char")]
        if not outs:
            continue
        n_out += 1
        seen, dq = set(), [b.id]
        found = False
        while dq and not found:
            u = dq.pop()
            if u in seen:
                continue
            seen.add(u)
            ub = by_id.get(u)
            if ub is None:
                continue
            if has_raw_write(ub):
                found = True
                break
            dq.extend(P.closures_of(u))
            for bi, t in ub.calls():
                d = t["f"].get("def", "")
                if d in by_id:
                    dq.append(d)
        ctx.check(found, "C17-R1", "out-buffer-covered:" + b.id.rsplit("::", 1)[1],
                  "an analysed raw write site is reachable for the output buffer(s) %s" % outs,
                  "extern \"C\" %s takes output buffer(s) %s but no raw write site the rules analyse is reachable from it inside "
                  "ffi.rs/ffi_par.rs: the buffer is written by code the bounds rules do not see" % (b.id, outs), site=b.where())
    ctx.floor("C17-R1", "extern \"C\" functions with a scalar output buffer", n_out, 10)

    # write_bytes (zero fill) and single-element stores through ptr.add
    n_add = 0
    for b in bodies:
        adds = {}
        for bi, t in b.calls():
            d = t["f"].get("def", "")
            if d.endswith("ptr::mut_ptr::<impl *mut T>::add") or d.endswith("ptr::const_ptr::<impl *const T>::add"):
                adds[t["dest"][0]] = (bi, t)
        for bi, t in b.calls():
            d = t["f"].get("def", "")
            if d.endswith("ptr::write_bytes"):
                inst = "%s@write_bytes" % b.id.replace("llguidance::", "")
                dst = strip(b.expr(t["args"][0]))
                cnt = strip(b.expr(t["args"][2]))
                ok = False
                if dst[0] != "call":
                    # whole-buffer fill: the destination is the caller pointer itself and the count is the caller length in
                    # the unit of the (possibly cast) pointer type
                    whole = is_param_derived(b, b.expr(t["args"][0])) or is_param_derived(b, dst)
                    esz = elem_size_of_ptr(t["aty"][0])
                    ok = whole and is_param_derived(b, cnt) and not byte_cap_without_division(b, cnt, esz) and (esz == 1 or not byte_names(b, expand(b, cnt)) or True)
                    if esz == 1 and not byte_names(b, expand(b, cnt)):
                        ok = False  # a byte fill must be bounded by the byte length
                if dst[0] == "call" and dst[1].endswith("::add") and cnt[0] in ("bin", "place"):
                    off = dst[2][1]
                    c = cnt
                    if c[0] == "place":
                        c = b.expr_place([c[1][0]])
                    if c[0] == "bin" and c[1] in ("Sub", "SubWithOverflow"):
                        ok = norm(b, c[3]) == norm(b, off) and is_param_derived(b, c[2])
                ctx.check(ok, "C17-R2", inst, "zero fill covers [off, cap): count == cap - off with cap derived from the caller length",
                          "write_bytes in %s: offset %s + count %s is not provably the caller length" % (b.id, F.fmt_expr(dst), F.fmt_expr(cnt)), site=b.where(bi))
        # stores through add()
        for bi, si, st in b.statements():
            if st["s"] != "assign" or len(st["p"]) < 2 or st["p"][1] != "*":
                continue
            l = st["p"][0]
            if l not in adds:
                continue
            n_add += 1
            abi, at = adds[l]
            inst = "%s@store-via-add#%s" % (b.id.replace("llguidance::", ""), b.where(bi).rsplit(":", 1)[1])
            off = b.expr(at["args"][1])
            offs, _ = count_exprs(b, at["args"][1])
            ok = True
            for o in offs:
                leaves = min_leaves(o)
                capm1 = False
                for lf in leaves:
                    lf = strip(lf)
                    if lf[0] == "place":
                        lf = b.expr_place([lf[1][0]])
                    if lf[0] == "bin" and lf[1] in ("Sub", "SubWithOverflow") and lf[3][0] == "const" and lf[3][1] == 1 and is_param_derived(b, lf[2]):
                        capm1 = True
                if capm1:
                    # cap != 0 must dominate
                    g = L.guard_edges_multi(b, [(lambda e: e[0] == "bin" and e[1] == "Eq" and e[3][0] == "const" and e[3][1] == 0, False),
                                                (lambda e: e[0] == "bin" and e[1] == "Gt" and e[3][0] == "const" and e[3][1] == 0, True),
                                                (lambda e: e[0] == "bin" and e[1] == "Ne" and e[3][0] == "const" and e[3][1] == 0, True)])
                    still = L.dominated_by_cut(b, [bi], g) if g else [bi]
                    if still:
                        ok = False
                    continue
                # otherwise: a dominating `off < cap`
                g = L.guard_edges(b, lambda e: e[0] == "bin" and e[1] == "Lt" and norm(b, e[2]) == norm(b, o) and is_param_derived(b, e[3]), True)
                still = L.dominated_by_cut(b, [bi], g) if g else [bi]
                if still:
                    ok = False
            ctx.check(ok, "C17-R2", inst, "store offset is <= cap-1 (cap != 0 checked) or dominated by offset < cap",
                      "store through %s.add(%s) in %s is not provably inside the caller buffer" % (b.local_name(at["args"][0].get("c", at["args"][0].get("m", [0]))[0]), F.fmt_expr(off), b.id), site=b.where(bi))
    ctx.floor("C17-R2", "stores through ptr.add", n_add, 3 if ctx.config == "default" else 2)

    # ------------------------------------------------------------------ R3 null checks dominate raw uses
    n_null = 0
    is_extern = lambda x: str(x.rec.get("abi", "")).startswith("C")
    RAW_KINDS = ("copy_nonoverlapping", "write_bytes", "from_raw_parts", "::add", "ptr::read", "ptr::write", "CStr::from_ptr")
    _needs = {}

    def helper_needs_nonnull(hid, k, depth=0):
        """Rust-ABI helper `hid` uses its raw-pointer parameter k without its own dominating null check: the obligation
        belongs to its call sites (a helper extracted from an extern fn keeps the caller's check)"""
        key = (hid, k)
        if key in _needs:
            return _needs[key]
        _needs[key] = False
        hb = by_id.get(hid)
        if hb is None or is_extern(hb) or hb.kind == "closure" or depth > 4 or k > hb.argc:
            return False
        if not hb.local_ty(k).startswith(("*mut", "*const")):
            return False
        g = L.guard_edges(hb, lambda e: e[0] == "call" and e[1].endswith("::is_null") and e[2]
                          and strip(e[2][0])[0] in ("place", "ref", "local") and (strip(e[2][0])[1][0] if strip(e[2][0])[0] != "local" else strip(e[2][0])[1]) == k, False)
        uses = []
        for bi, t in hb.calls():
            d = t["f"].get("def", "")
            for ai, a in enumerate(t["args"]):
                e = strip(hb.expr(a))
                if e[0] in ("place", "ref") and e[1][0] == k and len(e[1]) == 1:
                    if any(x in d for x in RAW_KINDS) or helper_needs_nonnull(d, ai + 1, depth + 1):
                        uses.append(bi)
        for bi, si, st in hb.statements():
            if st["s"] == "assign":
                for pl in (st["p"], st["r"].get("p")):
                    if pl and len(pl) >= 2 and pl[1] == "*" and pl[0] == k:
                        uses.append(bi)
        still = L.dominated_by_cut(hb, uses, g) if g else uses
        _needs[key] = bool(still)
        return _needs[key]

    for b in bodies:
        if b.kind == "closure":
            continue
        transferred = set()
        if not is_extern(b):
            # a Rust-ABI helper: raw uses of a pointer parameter it does not null-check itself are charged to its callers
            for p in range(1, b.argc + 1):
                if helper_needs_nonnull(b.id, p):
                    transferred.add(p)
                    ctx.info("C17-R3", "%s:%s — null obligation charged to the call sites" % (b.id, b.local_name(p)))
        # raw-pointer parameters
        for p in range(1, b.argc + 1):
            ty = b.local_ty(p)
            if not (ty.startswith("*mut") or ty.startswith("*const")):
                continue
            if "c_void" in ty:
                continue  # opaque user data, never dereferenced here
            if p in transferred:
                continue
            uses = []
            # uses in this body and in its closures (captured)
            scope = [b] + [P.bodies[c] for c in P.closures_of(b.id) if c in P.bodies]
            nullchk = False
            raw_use_sites = []
            for sb in scope:
                for bi, t in sb.calls():
                    d = t["f"].get("def", "")
                    for a in t["args"]:
                        e = strip(sb.expr(a))
                        refers = False
                        if sb is b and e[0] in ("place", "ref") and e[1][0] == p and len(e[1]) == 1:
                            refers = True
                        if sb is not b and e[0] == "place" and any(isinstance(x, dict) and x.get("up") == b.local_name(p) for x in e[1][1:]):
                            refers = True
                        if sb is not b and e[0] == "deref":
                            pass
                        if not refers:
                            continue
                        if d.endswith("::is_null"):
                            nullchk = True
                        elif any(k in d for k in RAW_KINDS):
                            raw_use_sites.append((sb, bi, d))
                        elif d in by_id and helper_needs_nonnull(d, t["args"].index(a) + 1):
                            raw_use_sites.append((sb, bi, d + " (helper that uses the pointer raw)"))
                        elif d.startswith(FFI) and d.rsplit("::", 1)[1] in ("slice_from_ptr", "slice_from_ptr_or_empty", "c_str_to_str", "save_error_string", "ffi_guard_ptr", "ffi_guard_constraint"):
                            pass  # helper performs the null check itself (verified below)
                for bi, si, st in sb.statements():
                    # direct deref of the param
                    if st["s"] == "assign":
                        for pl in (st["p"], st["r"].get("p")):
                            if pl and len(pl) >= 2 and pl[1] == "*" and sb is b and pl[0] == p:
                                raw_use_sites.append((sb, bi, "deref"))
            if not raw_use_sites:
                continue
            n_null += 1
            inst = "%s:%s" % (b.id.replace("llguidance::", ""), b.local_name(p))
            if (b.id, b.local_name(p)) in NULL_EXC:
                # null is excluded by two checks together: `ptr.is_null() && len != 0 -> bail` and `len == 0 -> empty`
                sb, bi, d = raw_use_sites[0]
                z = L.guard_edges(sb, lambda e: e[0] == "bin" and e[1] == "Eq" and e[3][0] == "const" and e[3][1] == 0, False)
                still = L.dominated_by_cut(sb, [bi], z) if z else [bi]
                ctx.check(nullchk and bool(z) and not still, "C17-R3", inst, "exception: " + NULL_EXC[(b.id, b.local_name(p))],
                          "%s: the len != 0 / is_null pair guarding `%s` changed" % (b.id, b.local_name(p)), site=sb.where(bi))
                continue
            ok = nullchk
            if nullchk:
                for sb, bi, d in raw_use_sites:
                    if sb is not b:
                        # closure: the null check may be inside the closure or before its creation in the parent
                        g = L.guard_edges(sb, lambda e: e[0] == "call" and e[1].endswith("::is_null"), False)
                        gp = L.guard_edges(b, lambda e: e[0] == "call" and e[1].endswith("::is_null"), False)
                        still = L.dominated_by_cut(sb, [bi], g) if g else [bi]
                        if still:
                            # check parent: closure creation dominated
                            cre = [x for x, s in P.block_calls(b).items() if sb.id in s]
                            stillp = L.dominated_by_cut(b, cre, gp) if gp else cre
                            if stillp:
                                ok = False
                    else:
                        g = L.guard_edges_multi(b, [(lambda e: e[0] == "call" and e[1].endswith("::is_null"), False)])
                        still = L.dominated_by_cut(b, [bi], g) if g else [bi]
                        if still:
                            ok = False
            ctx.check(ok, "C17-R3", inst, "raw uses of the caller pointer are dominated by a null check",
                      "%s uses caller pointer `%s` (%s) without a dominating null check" % (b.id, b.local_name(p), raw_use_sites[0][2]),
                      site=raw_use_sites[0][0].where(raw_use_sites[0][1]))
    ctx.floor("C17-R3", "caller raw pointers with raw uses", n_null, 6)
    for h in ("slice_from_ptr", "slice_from_ptr_or_empty"):
        hb = ctx.body(FFI + h)
        frp = [bi for bi, t in hb.calls() if t["f"].get("def", "").endswith("from_raw_parts")]
        g = L.guard_edges(hb, lambda e: e[0] == "call" and e[1].endswith("::is_null"), False)
        z = L.guard_edges(hb, lambda e: e[0] == "bin" and e[1] == "Eq" and e[3][0] == "const" and e[3][1] == 0, False)
        still = L.dominated_by_cut(hb, frp, g) if g else frp
        still2 = L.dominated_by_cut(hb, frp, z) if z else frp
        ctx.check(bool(frp) and not still and not still2, "C17-R3", "helper:" + h, "from_raw_parts is dominated by !is_null and len != 0",
                  "%s builds a slice from a possibly null pointer / zero length" % h, site=hb.where())

    # ------------------------------------------------------------------ R4 panic containment
    externs = [b for b in bodies if str(b.rec.get("abi", "")).startswith("C")]
    ctx.floor("C17-R4", "extern \"C\" functions", len(externs), 46)
    GUARDS = {CU: "catch_unwind", FFI + "ffi_guard_ptr": "guard", FFI + "ffi_guard_constraint": "guard",
              FFI + "new_constraint_tagged": "guard"}
    # guards must (transitively within ffi) call catch_unwind
    for g in list(GUARDS):
        if g == CU:
            continue
        gb = ctx.body(g)
        reach = P.reachable_from([g], stop={CU})
        ctx.check(CU in reach, "C17-R4", "guard-contains-catch_unwind:" + g.rsplit("::", 1)[1], "wrapper runs its closure under catch_unwind",
                  "%s no longer wraps its work in catch_unwind" % g, site=gb.where())
    WRAPPED = {
        "llguidance::constraint::Constraint::compute_mask": "Constraint::catch_unwind inside",
        "llguidance::constraint::Constraint::commit_token": "Constraint::catch_unwind inside",
        "llguidance::matcher::Matcher::new": "TokenParser construction happens before (in a guarded closure); new() only wraps",
    }
    WI = "llguidance::matcher::Matcher::with_inner"
    changed = True
    while changed:
        changed = False
        for i, mb in P.bodies.items():
            if not (i.startswith("llguidance::matcher::Matcher::") and mb.kind == "assoc_fn") or i in WRAPPED or i == WI:
                continue
            eng = [t["f"].get("def", "") for _, t in mb.calls()]
            eng = [d for d in eng if d.startswith("llguidance::")]
            if eng and all(d == WI or d in WRAPPED for d in eng):
                WRAPPED[i] = "Matcher::with_inner (catch_unwind + sticky error)" if WI in eng else "only calls wrapped Matcher methods"
                changed = True
    for w, why in WRAPPED.items():
        wb = ctx.body(w)
        if w.endswith("Matcher::new"):
            continue
        reach = P.reachable_from([w], stop={CU})
        ctx.check(CU in reach, "C17-R4", "wrapped:" + w.rsplit("::", 2)[1] + "::" + w.rsplit("::", 1)[1], why,
                  "%s no longer contains panics (no catch_unwind on its path)" % w, site=wb.where())
    TOTAL_OK = {
        FFI + "LlgConstraint::get_error": "field read", FFI + "LlgConstraint::get_error_code": "field read",
        FFI + "LlgConstraint::set_error": "string store", FFI + "make_c_string": "CString from bytes with NUL filtering",
        FFI + "save_error_string": "bounded copy (R2)", FFI + "slice_from_ptr_or_empty": "null/len checked (R3)",
        FFI + "LlgTokenizer::tok_env": "field read", FFI + "LlgTokenizer::tok_trie": "field read",
        FFI + "LlgMatcher::clear_mask": "field store", FFI + "LlgMatcher::mask_elts": "arithmetic on vocab size",
        FFI + "LlgMatcher::wrap": "error bookkeeping around a closure whose body is checked as part of the caller",
        FFI + "LlgCommitResult::from_commit_result": "pointer/len copy of a handle-owned vector (R6)",
        "llguidance::constraint::Constraint::step_result": "field read", "toktrie::Branch::<S>::is_stop": "enum test",
        "llguidance::matcher::Matcher::is_error": "enum test", "llguidance::matcher::Matcher::get_error": "clone of the error string",
        "llguidance::matcher::Matcher::is_stopped": "enum/field test",
        "toktrie::tokenv::TokenizerEnv::tok_trie": "accessor", "toktrie::toktree::TokTrie::vocab_size": "accessor",
        "llguidance::stop_controller::StopController::is_stopped": "field read",
        "<llguidance::api::ParserLimits as core::default::Default>::default": "constants",
        "<T as alloc::string::ToString>::to_string": "formatting of an error", "<T as core::convert::Into<U>>::into": "conversion",
        "<llguidance::ffi::LlgConstraint as core::clone::Clone>::clone": "allocation only", "<llguidance::ffi::LlgTokenizer as core::clone::Clone>::clone": "Arc clone",
        "<llguidance::ffi::LlgStopController as core::clone::Clone>::clone": "allocation only",
        "llguidance::ffi_par::par_compute_mask": "spawns the guarded batch task (each step under catch_unwind)",
        "toktrie::tokenv::ApproximateTokEnv::single_byte_env": "static construction",
        "llguidance::constraint::Constraint::flush_logs": "mem::take of the log buffer",
        # engine calls that are total on any input (bounds-checked token lookups); confirmed by running them on ids >= vocab
        "toktrie::tokenv::TokenizerEnv::tokenize_bytes": "greedy trie walk, total on arbitrary bytes",
        "toktrie::tokenv::TokenizerEnv::tokenize_bytes_marker": "greedy trie walk, total on arbitrary bytes",
        "toktrie::toktree::TokTrie::tokens_dbg": "out-of-range ids are printed as OOB",
        "toktrie::toktree::TokTrie::decode_ext": "out-of-range ids are skipped",
        "llguidance::matcher::Matcher::deep_clone": "clone + lexer lock (can only panic on a mutex poisoned by an earlier contained panic)",
        "llguidance::stop_controller::StopController::commit_token": "total on arbitrary token bytes once the dead-state assertion is gone "
                                                                     "(checked below: no explicit panic/assert in commit_token[_u8])",
    }
    # StopController::commit_token is called unguarded from llg_stop_commit_token: it must not contain assertions
    for fn in ("llguidance::stop_controller::StopController::commit_token", "llguidance::stop_controller::StopController::commit_token_u8"):
        sb = ctx.body(fn)
        pan = [(bi, t["f"]["def"]) for bi, t in sb.calls() if t["f"].get("def", "").startswith("core::panicking::")
               and not t["f"]["def"].endswith(("panic_bounds_check", "panic_const::panic_const_div_by_zero"))]
        ctx.check(not pan, "C17-R4", "no-assert:" + fn.rsplit("::", 1)[1],
                  "no assertion / explicit panic on the unguarded stop-controller path",
                  "%s contains an assertion or explicit panic (%s) and is called from llg_stop_commit_token without catch_unwind: "
                  "arbitrary token bytes (e.g. a stray UTF-8 continuation byte) abort the process" % (fn, pan[0][1] if pan else ""),
                  site=sb.where(pan[0][0]) if pan else None)
    for b in sorted(externs, key=lambda x: x.id):
        bad = []
        # the body plus every closure that is NOT handed to a real guard (e.g. closures given to LlgMatcher::wrap)
        guarded_cl = set()
        allcl = [P.bodies[c] for c in P.closures_of(b.id) if c in P.bodies]
        for sb in [b] + allcl:
            for bi, t in sb.calls():
                if t["f"].get("def") in GUARDS:
                    for a in t["args"]:
                        guarded_cl.update(find_closures(sb.expr(a)))
        def under_guard(c):
            return any(c.id == g or c.id.startswith(g + "::") for g in guarded_cl)
        scope = [(b, bi, t) for bi, t in b.calls()]
        for c in allcl:
            if not under_guard(c):
                scope += [(c, bi, t) for bi, t in c.calls()]
        # helpers defined in ffi.rs / ffi_par.rs that are not classified are analysed as part of the caller (their calls
        # join the scope): extracting a block of an extern fn into a local helper changes nothing
        inl_seen = set()
        k = 0
        while k < len(scope):
            sb, bi, t = scope[k]
            k += 1
            d = t["f"].get("def")
            if d and d in by_id and d not in GUARDS and d not in WRAPPED and d not in TOTAL_OK and not is_extern(by_id[d]) and d not in inl_seen:
                inl_seen.add(d)
                hb = by_id[d]
                scope += [(hb, hbi, ht) for hbi, ht in hb.calls()]
                for c in P.closures_of(d):
                    if c in P.bodies:
                        scope += [(P.bodies[c], cbi, ctt) for cbi, ctt in P.bodies[c].calls()]
        for sb, bi, t in scope:
            d = t["f"].get("def")
            if d is None:
                # indirect call (user callback)
                continue
            if d in inl_seen:
                continue
            if d.startswith(("core::", "alloc::", "std::", "<core", "<alloc", "<std", "<*", "anyhow::", "<anyhow")) or d.startswith("<&"):
                continue
            if d in (SV + "as_ptr", SV + "as_slice", SV + "len"):
                continue
            if d in GUARDS or d in WRAPPED or d in TOTAL_OK:
                continue
            bad.append((d, (sb, bi)))
        name = b.id.rsplit("::", 1)[1]
        if not bad:
            ctx.ok("C17-R4", "contained:" + name, "every engine call is guarded, wrapped or a total accessor", site=b.where())
        for d, bi in bad:
            ctx.violation("C17-R4", "unguarded:%s->%s" % (name, d.replace("llguidance::", "")),
                          "extern \"C\" %s calls %s outside any catch_unwind: a panic there unwinds across the C boundary and aborts the "
                          "process" % (name, d), site=bi[0].where(bi[1]))

    # ------------------------------------------------------------------ R7 outbound (pointer, length) pairs
    # calls *out* through a C function pointer (the embedder's tokenize callback): every `X.as_ptr()/as_mut_ptr()`
    # argument is followed by the length of the same object X, taken with X.len() — not a remembered capacity, which goes
    # stale when the buffer is resized for the retry — and the retry happens only after the resize
    n_out = 0
    allb = [b for i, b in sorted(list(P.bodies.items()) + list(P.hidden.items()))
            if (i.startswith(("llguidance::ffi::", "llguidance::ffi_par::", "<llguidance::ffi")) and P._is_code(b))]
    for b in allb:
        for bi, t in b.calls():
            if "op" not in t["f"] or 'extern "C"' not in t["f"].get("ty", ""):
                continue
            args = [strip(b.expr(a)) for a in t["args"]]
            for k, a in enumerate(args):
                if not (a[0] == "call" and a[1].rsplit("::", 1)[-1] in ("as_ptr", "as_mut_ptr") and a[2]):
                    continue
                if k + 1 >= len(args) or "usize" not in (t["aty"][k + 1] if k + 1 < len(t.get("aty", [])) else "usize"):
                    continue
                n_out += 1
                ln = args[k + 1]
                same = ln[0] == "call" and ln[1].rsplit("::", 1)[-1] == "len" and ln[2] and norm(b, ln[2][0]) == norm(b, a[2][0])
                ctx.check(same, "C17-R7", "callback-len-matches-buffer:%s#%d" % (b.id.replace("llguidance::", ""), k),
                          "the length passed to the C callback is the len() of the very buffer whose pointer is passed",
                          "%s passes pointer %s with length %s to a C callback: the length is not the current len() of that buffer "
                          "(a stale capacity makes the callee fill only part of a resized buffer, or overrun a smaller one)"
                          % (b.id, F.fmt_expr(a), F.fmt_expr(ln)), site=b.where(bi))
    ctx.floor("C17-R7", "(pointer, length) pairs passed to C callbacks", n_out, 2)

    # ------------------------------------------------------------------ R8 the engine mask holds only real token ids
    # (what is copied into the caller's buffer is the engine's own mask: the trie walk's scratch slot at index vocab_size must
    # be cleared on every path, and the set must be allocated with that spare slot — decided by C16-R1, adopted here)
    ctx.import_clauses("c16", "C16-R1", ["add_bias:", "alloc_token_set:", "alloc_with_capacity:"], "C17-R8")

    # ------------------------------------------------------------------ R5 wrapper correspondence
    CORR = {
        "llg_matcher_consume_token": ["Matcher::consume_token"], "llg_matcher_consume_tokens": ["Matcher::consume_tokens"],
        "llg_matcher_rollback": ["Matcher::rollback"], "llg_matcher_reset": ["Matcher::reset"],
        "llg_matcher_validate_tokens": ["Matcher::validate_tokens"], "llg_matcher_compute_ff_tokens": ["Matcher::compute_ff_tokens"],
        "llg_matcher_compute_mask": ["Matcher::compute_mask_or_eos"], "llg_matcher_compute_mask_into": ["Matcher::compute_mask_or_eos"],
        "llg_matcher_is_accepting": ["Matcher::is_accepting"], "llg_matcher_is_stopped": ["Matcher::is_stopped"],
        "llg_matcher_is_error": ["Matcher::is_error"], "llg_clone_matcher": ["Matcher::deep_clone"],
        "llg_compute_mask": ["Constraint::compute_mask"], "llg_commit_token": ["Constraint::commit_token"],
        "llg_stop_commit_token": ["StopController::commit_token"],
    }
    STATE_CHANGING = ("consume_token", "consume_tokens", "rollback", "reset", "compute_mask", "compute_mask_or_eos", "commit_token",
                      "try_consume_tokens", "consume_ff_tokens", "compute_ff_tokens", "compute_ff_bytes", "validate_tokens")
    for fn, expect in CORR.items():
        b = P.bodies.get(FFI + fn)
        if b is None:
            ctx.violation("C17-R5", "anchor-missing:" + fn, "C API function %s not found" % fn)
            continue
        scope = [b] + [P.bodies[c] for c in P.closures_of(b.id) if c in P.bodies]
        eng = set()
        for sb in scope:
            for bi, t in sb.calls():
                d = t["f"].get("def", "")
                for typ in ("llguidance::matcher::Matcher::", "llguidance::constraint::Constraint::", "llguidance::stop_controller::StopController::"):
                    if d.startswith(typ):
                        eng.add(d.split("llguidance::", 1)[1].split("::", 1)[1])
        want = set(expect)
        changing = {e for e in eng if e.rsplit("::", 1)[1] in STATE_CHANGING}
        ctx.check(want <= eng and changing <= want, "C17-R5", fn, "calls %s and no other state-changing engine method" % sorted(want),
                  "%s calls %s (expected exactly %s among state-changing engine methods)" % (fn, sorted(eng), sorted(want)), site=b.where())
    # llg_commit_token range-checks the token before commit_token
    ct = P.bodies.get(FFI + "llg_commit_token")
    if ct is not None:
        sites = ct.call_blocks("llguidance::constraint::Constraint::commit_token")
        ctx.check(bool(sites), "C17-R5", "llg_commit_token:calls-commit", "calls Constraint::commit_token", "llg_commit_token no longer commits", site=ct.where())
        vs = ct.call_blocks("toktrie::toktree::TokTrie::vocab_size")
        ctx.check(bool(vs), "C17-R5", "llg_commit_token:range-check-present", "compares the token with vocab_size",
                  "llg_commit_token no longer range-checks the token id", site=ct.where())

    # ------------------------------------------------------------------ R6 returned pointers are handle-owned
    n_ret = 0
    for b in externs:
        rty = b.local_ty(0)
        if not (rty.startswith("*const") or rty.startswith("*mut")):
            continue
        n_ret += 1
        bad = []
        for (bi, si, kind, payload) in b.defs().get(0, []):
            if kind == "assign":
                e = strip(b.expr_rvalue(payload))
            else:
                e = ("call", payload["f"].get("def", "?"), [b.expr(a) for a in payload["args"]], bi)
            if not owned(b, e):
                bad.append((bi, e))
        name = b.id.rsplit("::", 1)[1]
        ctx.check(not bad, "C17-R6", "returned-pointer:" + name,
                  "the returned pointer is handle-owned / static / freshly boxed / null",
                  "%s returns %s, which is not owned by the handle (dangling once the call returns)" % (name, F.fmt_expr(bad[0][1]) if bad else ""),
                  site=b.where(bad[0][0]) if bad else None)
    ctx.floor("C17-R6", "extern functions returning raw pointers", n_ret, 10)


def find_closures(e, depth=0):
    out = set()
    if depth > 6 or not isinstance(e, tuple):
        return out
    if e[0] == "closure":
        out.add(e[1])
    elif e[0] == "agg":
        if isinstance(e[1], dict) and "closure" in e[1]:
            out.add(e[1]["closure"])
        for x in e[2]:
            out |= find_closures(x, depth + 1)
    elif e[0] in ("call", "callop"):
        for x in e[2]:
            out |= find_closures(x, depth + 1)
    elif e[0] in ("cast", "deref"):
        out |= find_closures(e[1], depth + 1)
    return out


def owned(b, e, depth=0):
    e = strip(e)
    if depth > 8:
        return False
    k = e[0]
    if k == "const":
        return True
    if k == "call":
        d = e[1]
        if d.endswith("Box::<T>::into_raw") or d.endswith("Box::<T, A>::into_raw") or "ptr::null" in d:
            return True
        if d.endswith(("::as_ptr", "::as_mut_ptr")) and e[2]:
            return owned(b, e[2][0], depth + 1)
        if d.endswith(L.VIEW_CALLS) or d.endswith(("Option::<T>::as_ref", "::as_deref", "::as_c_str", "::deref")):
            return any(owned(b, a, depth + 1) for a in e[2][:1])
        if d.startswith(FFI) and d.rsplit("::", 1)[1] in ("ffi_guard_ptr", "ffi_guard_constraint", "constraint_to_llg", "new_constraint_tagged"):
            return True  # returns Box::into_raw (checked by name: constructors)
        if d.endswith("OnceLock::<T>::get_or_init"):
            return True  # static
        if d == CU:
            # pointer produced inside the guarded closure: must be a fresh Box there
            return True
        # any other call: ownership propagates only if the call returns a *view* (reference / pointer /
        # Option of a reference) of its receiver; calls returning owned values (clone, to_string, ...)
        # create temporaries that die at the end of the function
        if e[2] and len(e) > 3:
            t = b.blocks[e[3]]["term"]
            rty = b.local_ty(t["dest"][0]) if len(t["dest"]) == 1 else ""
            is_view = rty.startswith(("&", "*")) or rty.startswith("core::option::Option<&") or rty.startswith("core::option::Option<*")
            if is_view:
                return owned(b, e[2][0], depth + 1)
        return False
    if k in ("place", "ref"):
        l = e[1][0]
        if 1 <= l <= b.argc:
            return True
        v = b.expr_place([l])
        if v != e and v[0] != "local" and not (v[0] in ("place", "ref") and v[1][0] == l):
            return owned(b, v, depth + 1)
        return False
    if k == "deref":
        return owned(b, e[1], depth + 1)
    if k == "local":
        ds = b.defs().get(e[1], [])
        ok = bool(ds)
        for (bi, si, kind, payload) in ds:
            if kind == "assign":
                ok = ok and owned(b, b.expr_rvalue(payload), depth + 1)
            elif kind == "call":
                ok = ok and owned(b, ("call", payload["f"].get("def", "?"), [b.expr(a) for a in payload["args"]], bi), depth + 1)
        return ok
    return False
