"""C15 — grammar optimisation preserves the language (structural clauses)."""
from .. import facts as F
from .. import lib as L

G = "llguidance::earley::grammar::"
GR = G + "Grammar"
SP = G + "SymbolProps"
SYM = G + "Symbol"
RULE = G + "Rule"

META = dict(
    explanation=(
        "Static analysis over MIR (dominance / cut-sets, read-sets, must-call order). Decided clauses: "
        "R1 both elimination sites of the inliner (the union-find alias `uf_union` and the "
        "`repl.insert(sym.idx, ..)` of single-use symbols) are dominated by the false edge of "
        "is_special_symbol(sym) and by their shape conditions (exactly one rule, unconditional, neutral "
        "parameter / a unique user); R2 the guard covers every semantic symbol property: "
        "is_special_symbol = start ∨ gen_grammar ∨ props.is_special(), is_special() reads max_tokens, "
        "capture_name, stop_capture_name and is_start, and every other SymbolProps field is in a "
        "reasoned allowlist — a new field that the guard does not read is reported; R3 optimisation is "
        "applied unconditionally: compile_grammar calls optimize() before compile() on its single path "
        "and is the only producer of a CGrammar for the engine; copy_from carries the properties over."
    ),
    not_decided="language preservation of the union-find / stack rewrite itself (needs an inductive argument over derivations)",
)

PROPS_NOT_IN_GUARD = {
    "temperature": "only read on terminals, which have no rules and are never eliminated",
    "grammar_id": "sub-grammars are entered only through gen_grammar symbols, which are special",
    "parametric": "handled by neutral_param(): a parametric symbol is only aliased with the neutral parameter",
}


def run(ctx):
    P = ctx.prog
    es = ctx.body(GR + "::expand_shortcuts")
    GE = lambda body, pred, truth: L.guard_edges_ip(P, body, [(pred, truth)])
    guard_false = GE(es, L.is_call_to(GR + "::is_special_symbol"), False)
    ctx.floor("C15-R1", "is_special_symbol guards in expand_shortcuts", len(set(b for b, _ in guard_false)), 2)

    # ---- R1 elimination sites
    uf = es.call_blocks(G + "uf_union")
    if ctx.floor("C15-R1", "uf_union site", len(uf), 1):
        still = L.dominated_by_cut(es, uf, guard_false) if guard_false else uf
        ctx.check(not still, "C15-R1", "alias:guarded-by-is_special_symbol",
                  "uf_union (alias sym := trg) is dominated by !is_special_symbol(sym)",
                  "expand_shortcuts can alias away a special symbol (capture / max_tokens / sub-grammar boundary / start)", site=es.where(uf[0]))
        def one_rule(e):
            return e[0] == "bin" and e[1] == "Eq" and e[3][0] == "const" and e[3][1] == 1 and "rules" in repr(e[2]) and (
                "::len" in repr(e[2]) or "PtrMetadata" in repr(e[2]))

        def neutral(e):
            try:
                return e[0] == "call" and e[1].endswith("::eq") and any("neutral_param" in repr(L.value_of(es, a)) for a in e[2])
            except Exception:
                return False

        conds = {
            "rules.len() == 1": one_rule,
            "condition.is_true()": lambda e: e[0] == "call" and e[1].endswith("ParamCond::is_true"),
            "param == neutral_param()": neutral,
        }
        for name, pred in conds.items():
            g = GE(es, pred, True)
            still = L.dominated_by_cut(es, uf, g) if g else uf
            ctx.check(bool(g) and not still, "C15-R1", "alias:" + name, "uf_union is dominated by `%s`" % name,
                      "the alias elimination no longer requires `%s`" % name, site=es.where(uf[0]))
        # single-element rhs: slice pattern [(trg, param)] => len == 1 test on rhs
        g = GE(es, lambda e: e[0] == "bin" and e[1] == "Eq" and e[3][0] == "const" and e[3][1] == 1 and "rhs" in repr(e[2]) and (
            "PtrMetadata" in repr(e[2]) or "::len" in repr(e[2])), True)
        still = L.dominated_by_cut(es, uf, g) if g else uf
        ctx.check(bool(g) and not still, "C15-R1", "alias:rhs-has-one-symbol", "uf_union is dominated by the single-symbol rhs pattern",
                  "the alias elimination no longer requires a one-symbol right-hand side", site=es.where(uf[0]))
    ins = []
    for bi, t in es.calls():
        d = t["f"].get("def", "")
        if d.endswith("HashMap::<K, V, S, A>::insert") or d.endswith("HashMap::<K, V, S>::insert"):
            k = es.expr(t["args"][1])
            ins.append((bi, k))
    by_idx = [bi for bi, k in ins if k[0] == "place" and F.place_fields(k[1])[-1:] == [(SYM, "idx")]]
    if ctx.floor("C15-R1", "repl.insert(sym.idx, ..) site", len(by_idx), 1):
        still = L.dominated_by_cut(es, by_idx, guard_false) if guard_false else by_idx
        ctx.check(not still, "C15-R1", "inline:guarded-by-is_special_symbol",
                  "repl.insert(sym.idx, ..) is dominated by !is_special_symbol(sym)",
                  "expand_shortcuts can inline (eliminate) a special symbol", site=es.where(by_idx[0]))
        conds = {
            "rules.len() == 1": [(one_rule, True)],
            "the_user_of[sym].is_some()": [(lambda e: e[0] == "call" and e[1].endswith("Option::<T>::is_some"), True),
                                           (lambda e: e[0] == "call" and e[1].endswith("Option::<T>::is_none"), False)],
            "condition.is_true()": [(lambda e: e[0] == "call" and e[1].endswith("ParamCond::is_true"), True)],
        }
        for name, specs in conds.items():
            g = L.guard_edges_ip(P, es, specs)
            still = L.dominated_by_cut(es, by_idx, g) if g else by_idx
            ctx.check(bool(g) and not still, "C15-R1", "inline:" + name, "repl.insert(sym.idx) is dominated by `%s`" % name,
                      "the inlining elimination no longer requires `%s`" % name, site=es.where(by_idx[0]))
    # the guard is evaluated on the loop's own symbol
    for bi, t in es.calls():
        if t["f"].get("def") == GR + "::is_special_symbol":
            ib = es.blocks[bi]
    others = [bi for bi, k in ins if bi not in by_idx]
    ctx.info("C15-R1", "other repl/new_repl inserts (keys derived from the guarded sets): %d" % len(others))
    # all remaining inserts' keys come from `definition` (filled under the guard) or from repl_roots (keys of repl)
    for bi, k in ins:
        if bi in by_idx:
            continue
        txt = repr(k)
        ok = "SymIdx" in txt or k[0] in ("local", "place", "deref", "call")
        ctx.check(ok, "C15-R1", "other-insert@%s" % es.where(bi).rsplit(":", 1)[1], "key derived from definition[] / repl keys",
                  "unexpected elimination-map insert with key %s" % F.fmt_expr(k), site=es.where(bi))

    # ---- R2 guard covers the properties
    iss = ctx.body(GR + "::is_special_symbol")
    calls = [iss.callee(t) for _, t in iss.calls()]
    w, m, r = P.own_effects(iss)
    ctx.check(SP + "::is_special" in calls, "C15-R2", "is_special_symbol:props.is_special", "is_special_symbol consults props.is_special()",
              "is_special_symbol no longer consults SymbolProps::is_special", site=iss.where())
    ctx.check(GR + "::start" in calls and (SYM, "idx") in r, "C15-R2", "is_special_symbol:start", "is_special_symbol protects the start symbol",
              "is_special_symbol no longer protects the start symbol", site=iss.where())
    ctx.check((SYM, "gen_grammar") in r, "C15-R2", "is_special_symbol:gen_grammar", "is_special_symbol protects sub-grammar boundaries (gen_grammar)",
              "is_special_symbol no longer protects gen_grammar symbols", site=iss.where())
    # it must be a pure disjunction: `true` is returned if any of the three holds — every `false` result is
    # dominated by the false edges of all three tests
    f_rets = [bi for bi, si, st in iss.statements() if st["s"] == "assign" and st["p"] == [0]
              and not (st["r"]["rv"] == "use" and st["r"]["o"].get("iv") == "1")]
    f_rets += [bi for bi, t in iss.calls() if t["dest"] == [0]]
    tests = {
        "idx == start": lambda e: (e[0] == "call" and e[1].endswith("::eq")) or (e[0] == "bin" and e[1] == "Eq"),
        "gen_grammar.is_some()": lambda e: e[0] == "call" and e[1].endswith("Option::<T>::is_some"),
    }
    for name, pred in tests.items():
        g = L.guard_edges(iss, pred, True)
        reach = set()
        for (_, t) in g:
            reach |= iss.reachable(t)
        ctx.check(bool(g) and not (reach & set(f_rets)), "C15-R2", "is_special_symbol:disjunct:" + name,
                  "`%s` alone makes the symbol special" % name, "is_special_symbol can return false although `%s`" % name, site=iss.where())
    sp = ctx.body(SP + "::is_special")
    w, m, r = P.own_effects(sp)
    read_fields = {f for (a, f) in r if a == SP}
    adt = P.adts.get(SP)
    if adt is None:
        ctx.violation("C15-R2", "anchor-missing:SymbolProps", "struct SymbolProps not found")
    else:
        fields = [f["name"] for f in adt["variants"][0]["fields"]]
        ctx.floor("C15-R2", "SymbolProps fields", len(fields), 7)
        for f in fields:
            if f in read_fields:
                ctx.ok("C15-R2", "props-field:" + f, "read by is_special()")
            elif f in PROPS_NOT_IN_GUARD:
                ctx.ok("C15-R2", "props-field:" + f, "not in the guard — " + PROPS_NOT_IN_GUARD[f])
            else:
                ctx.violation("C15-R2", "props-field:" + f,
                              "SymbolProps.%s is not read by is_special() and has no reason to be ignored: a symbol carrying it can be "
                              "inlined away" % f, site=sp.where())
        for f in ("max_tokens", "capture_name", "stop_capture_name", "is_start"):
            ctx.check(f in read_fields, "C15-R2", "is_special:reads:" + f, "is_special() reads " + f,
                      "SymbolProps::is_special no longer reads `%s`: symbols carrying it are no longer protected" % f, site=sp.where())
    # Symbol-level fields: anything semantic besides props/gen_grammar/rules?
    sadt = P.adts.get(SYM)
    if sadt:
        sf = [f["name"] for f in sadt["variants"][0]["fields"]]
        known = {"idx", "name", "lexeme", "gen_grammar", "rules", "props"}
        extra = [f for f in sf if f not in known]
        ctx.check(not extra, "C15-R2", "symbol-fields", "Symbol fields are the 6 known ones",
                  "Symbol has new field(s) %s: decide whether the inliner must preserve them" % extra)

    # ------------------------------------------------------------------ R4 alias table is fully compressed before it is read
    # expand_shortcuts reads the alias table with ONE look-up per symbol after uf_compress_all(); that is only right if
    # uf_find(e) leaves every entry it touches pointing directly at the root it returns (full path compression, not
    # path halving/splitting) and uf_compress_all calls it for every aliased entry.
    uf = ctx.body(G + "uf_find")
    ret_l = None
    for (bi_, si_, k_, p_) in uf.defs().get(0, []):
        if k_ == "assign" and p_["rv"] == "use":
            pl_ = F.op_place(p_["o"])
            ret_l = pl_[0] if pl_ and len(pl_) == 1 else None
    stores = []
    for bi_, t_ in uf.calls():
        d_ = t_["f"].get("def", "")
        if d_.endswith("Option::<T>::replace") and len(t_["args"]) == 2:
            pl_ = F.op_place(t_["args"][1])
            stores.append((bi_, pl_[0] if pl_ and len(pl_) == 1 else None))
    for bi_, si_, st_ in uf.statements():
        if st_["s"] == "assign" and len(st_["p"]) > 1 and st_["p"][0] == 1 and st_["r"].get("rv") == "agg" and isinstance(st_["r"].get("kind"), dict) \
                and st_["r"]["kind"].get("variant") == "Some":
            pl_ = F.op_place(st_["r"]["ops"][0])
            stores.append((bi_, pl_[0] if pl_ and len(pl_) == 1 else None))
        elif st_["s"] == "assign" and len(st_["p"]) > 1 and st_["p"][0] == 1 and st_["r"].get("rv") == "use":
            # map[..] = <temp holding Some(x)>
            e_ = uf.expr(st_["r"]["o"])
            x_ = e_[2][0] if e_[0] == "agg" and e_[2] else None
            stores.append((bi_, (x_[1] if x_ and x_[0] == "local" else (x_[1][0] if x_ and x_[0] == "place" and len(x_[1]) == 1 else None))))

    def same_as_ret(l, depth=3):
        if l is None or ret_l is None:
            return False
        if l == ret_l:
            return True
        ds_ = uf.defs().get(l, [])
        if depth > 0 and len(ds_) == 1 and ds_[0][2] == "assign" and ds_[0][3]["rv"] == "use":
            pl_ = F.op_place(ds_[0][3]["o"])
            return bool(pl_) and len(pl_) == 1 and same_as_ret(pl_[0], depth - 1)
        return False
    bad = [bi_ for bi_, l_ in stores if not same_as_ret(l_)]
    ctx.check(ret_l is not None and not bad, "C15-R4", "uf_find:compresses-to-root",
              "every entry uf_find rewrites is set to the root it returns (%d store(s))" % len(stores),
              "uf_find rewrites an alias entry with something other than the root it returns (path halving / splitting): after "
              "uf_compress_all an alias chain of three or more steps still has an entry that points at an intermediate alias, which "
              "expand_shortcuts reads with a single look-up", site=uf.where(bad[0]) if bad else uf.where())
    uca = ctx.body(G + "uf_compress_all")
    ctx.check(bool(uca.call_blocks(G + "uf_find")), "C15-R4", "uf_compress_all:finds-every-entry", "uf_compress_all calls uf_find for the aliased entries",
              "uf_compress_all no longer calls uf_find", site=uca.where())

    # ---- R3 optimize is applied, before compile, exactly once per engine grammar
    cg = ctx.body("llguidance::earley::from_guidance::compile_grammar")
    opt = cg.call_blocks(GR + "::optimize")
    comp = cg.call_blocks(GR + "::compile")
    ok = bool(opt) and bool(comp) and all(c not in cg.reachable(0, cut_blocks=opt) for c in comp)
    ctx.check(ok, "C15-R3", "compile_grammar:optimize-dominates-compile", "optimize() dominates compile()",
              "compile_grammar compiles a grammar that did not pass through optimize()", site=cg.where())
    if comp:
        # compile() is applied to the value produced by optimize(): either the very variable that optimize()'s result was
        # assigned to, or the call result itself (data flow, not the variable's name)
        e = cg.expr(cg.blocks[comp[0]]["term"]["args"][0])
        l = L.root_local(cg, e)
        opt_dests = {cg.blocks[ob]["term"]["dest"][0] for ob in opt}
        def from_opt(l, depth=4):
            if l is None or depth == 0:
                return False
            if l in opt_dests:
                return True
            for (bi_, si_, k_, p_) in cg.defs().get(l, []):
                if k_ == "assign" and p_["rv"] == "use":
                    pl_ = F.op_place(p_["o"])
                    if pl_ and from_opt(pl_[0], depth - 1):
                        return True
                if k_ == "call" and p_["f"].get("def") == GR + "::optimize":
                    return True
            return False
        ok = from_opt(l) or (e[0] == "call" and e[1] == GR + "::optimize") or (e[0] in ("ref",) and False)
        ctx.check(ok, "C15-R3", "compile_grammar:compiles-optimized-value", "compile() is applied to the value returned by optimize()",
                  "compile() is applied to %s, which is not the result of optimize()" % F.fmt_expr(e), site=cg.where(comp[0]))
    producers = set(P.callers_of(GR + "::compile")) | set(P.callers_of("llguidance::earley::grammar::CGrammar::from_grammar"))
    exp = {cg.id, GR + "::compile"}
    ctx.check(producers <= exp, "C15-R3", "cgrammar:producers", "CGrammar is produced only by compile_grammar",
              "CGrammar is now also produced by %s (possibly bypassing or duplicating optimize)" % sorted(producers - exp))
    o = ctx.body(GR + "::optimize")
    n_es = len(o.call_blocks(GR + "::expand_shortcuts"))
    ctx.check(n_es == 2 and bool(o.call_blocks(GR + "::rename")), "C15-R3", "optimize:shape", "optimize = expand_shortcuts x2 + rename",
              "Grammar::optimize changed shape (%d expand_shortcuts passes)" % n_es, site=o.where())
    # copy_from carries name, props, lexeme, gen_grammar
    cf = ctx.body(GR + "::copy_from")
    w, m, r = P.own_effects(cf)
    for f in ("props", "gen_grammar", "lexeme"):
        ctx.check((SYM, f) in r, "C15-R3", "copy_from:carries:" + f, "copy_from reads Symbol." + f,
                  "Grammar::copy_from no longer copies Symbol.%s into the optimised grammar" % f, site=cf.where())
    # ------------------------------------------------------------------ R5 every rule of a kept symbol is re-emitted
    # The output grammar is rebuilt rule by rule; a rule that is not re-emitted is a lost alternative (two alternatives with
    # the same body but different %if conditions are *different* rules).  In the loop over `sym.rules` that leads to
    # add_rule_ext, no path returns to the iterator without having called add_rule_ext.
    es = ctx.body(GR + "::expand_shortcuts")
    emit = es.call_blocks(GR + "::add_rule_ext")
    loops = []
    for bi, t in es.calls():
        d = t["f"].get("def", "")
        if d.endswith("::next") and "grammar::Rule>" in (t["f"].get("full") or "") and any(x in es.reachable(bi) and bi in es.reachable(x) for x in emit):
            loops.append(bi)
    skipping = []
    for nb in [x for x in loops if x is not None]:
        dest = es.blocks[nb]["term"]["dest"][0]
        for sb, e, targets, otherwise in es.switch_edges():
            if e[0] == "discr" and e[1][0] == "call" and len(e[1]) > 3 and e[1][3] == nb:
                for v, tb in targets:
                    if int(v) == 1 and nb in es.reachable(tb, cut_blocks=emit):
                        skipping.append(nb)
    if emit and not loops:
        # the loop is not an explicit `for` over the rules (e.g. for_each / a helper): the per-iteration path property is not judged
        ctx.info("C15-R5", "expand_shortcuts: rule loop not recognised as an explicit iterator loop (not judged)")
        loops = [None]
    ctx.check(bool(loops) and bool(emit) and not skipping, "C15-R5", "expand_shortcuts:every-rule-re-emitted",
              "each iteration over a kept symbol's rules reaches add_rule_ext",
              "expand_shortcuts can skip a rule of a kept symbol (an iteration of the rule loop returns to the iterator without add_rule_ext): "
              "alternatives are lost — e.g. two alternatives with the same body and different %if conditions", site=es.where(skipping[0]) if skipping else es.where())

