"""C10 — the slicing optimisation never changes a mask (structural clauses)."""
from .. import facts as F
from .. import lib as L

SL = "llguidance::earley::slicer::"
TS = SL + "TokenizerSlice"
SBC = "<llguidance::earley::slicer::SlicedBiasComputer as llguidance::earley::parser::BiasComputer>::compute_bias"
RV = "llguidance::earley::regexvec::RegexVec"
SV = "toktrie::svob::SimpleVob::"
SVT = "toktrie::svob::SimpleVob"
TRIE = "toktrie::toktree::TokTrie::"

META = dict(
    explanation=(
        "Static analysis over MIR (dominance / cut-sets, must-pass, def-use). Decided clauses: R1 a "
        "pre-computed slice mask is OR-ed into the result only under the three preconditions "
        "(non-empty slice tree, empty start, subsume_possible(lexer state)) and only when "
        "matches() is true; matches() is false for the wildcard slice and treats a check_subsume "
        "error as 'not contained'; subsume_possible() is false for dead/errored states and "
        "whenever a lazy lexeme is live; R2 whatever a slice does not cover is walked: every "
        "'applied' return of apply() passes the OR or an add_bias over one of the residual tries, "
        "un-applied children are walked, and the fall-back arm walks the full trie with the "
        "original start; R3 slice masks under-approximate: a token enters a slice mask only if it "
        "is non-empty and fully matches the slice regex, the residual masks are obtained by "
        "subtraction (never union), and the tries are filtered from exactly those masks; R4 the "
        "containment question behind the shortcut compares the slice regex with the residual regex "
        "stored for the current lexer state (rx_sets[state]), answers true only on a positive "
        "containment result, and is forwarded unchanged by Lexer::check_subsume."
    ),
    not_decided=(
        "soundness of derivre's containment check (is_contained_in_prefixes) and the combinatorics "
        "of partial slice application for all regex lists"
    ),
)
META["explanation"] += (
    " Added after the independent seeding rounds 2-3: " "R3 identifies the masks by data-flow role (allocated+filled = base, clone only sub()-ed = residual, clone only trimmed = trimmed), not by variable names. R4 containment operands of check_subsume; R1 also requires subsume_possible to answer true only after the full scan of the state's lexemes."
)


def subsume_operands(ctx, R):
    """The containment question behind the slice shortcut must be `slice regex  ⊆  what is LEFT of a live lexeme
    in THIS lexer state`: the small operand is get_rx(lexeme_idx), the big operand is the derivative stored in the
    state's (lexeme, derivative) list rx_sets[state] — not the lexeme's regex from its beginning — and `true` is
    returned only after a positive containment answer (an error counts as not contained).  Shared by C01 (a mask
    bit implies acceptance) and C10."""
    P = ctx.prog
    cs = ctx.body(RV + "::check_subsume")
    sites = [(bi, t) for bi, t in cs.calls() if t["f"].get("def", "").endswith("::is_contained_in_prefixes")]
    if not ctx.floor(R, "containment query in check_subsume", len(sites), 1):
        return
    for k, (bi, t) in enumerate(sites):
        roles = [L.role(cs, a, depth=14) for a in t["args"]]
        small, big = roles[3], roles[4]
        ctx.check(small.startswith("call:get_rx(") and small.endswith(",param:3)"), R, "check_subsume:small-is-slice-regex#%d" % k,
                  "the contained side is get_rx(lexeme_idx) of the slice's lexeme", "the contained side is %s" % small, site=cs.where(bi))
        ok = ".rx_sets" in big and "param:2" in big and "get_rx(" not in big
        ctx.check(ok, R, "check_subsume:big-is-state-derivative#%d" % k,
                  "the containing side is the derivative stored for this lexer state (rx_sets[state])",
                  "the containing side is %s, not the residual regex of the current lexer state: mid-lexeme the "
                  "shortcut is judged against the wrong language and the slice mask is OR-ed in unsoundly" % big, site=cs.where(bi))
    # result: `true` only under a positive answer
    # (a `res = true` flag or a direct `return Ok(true)`)
    trues = []
    for bi, si, st in cs.statements():
        if st["s"] != "assign":
            continue
        r = st["r"]
        if r.get("rv") == "use" and r["o"].get("ty") == "bool" and r["o"].get("iv") == "1" and len(st["p"]) == 1 and cs.local_ty(st["p"][0]) == "bool":
            trues.append(bi)
        elif r.get("rv") == "agg" and isinstance(r.get("kind"), dict) and r["kind"].get("variant") == "Ok" and r["ops"] \
                and r["ops"][0].get("ty") == "bool" and r["ops"][0].get("iv") == "1":
            trues.append(bi)
    def positive(e):
        e = L.strip_wrappers(e)
        if e[0] == "call" and e[1].endswith("::unwrap_or") and e[2] and e[2][0][0] == "call" and e[2][0][1].endswith("::is_contained_in_prefixes"):
            dflt = e[2][1]
            return dflt[0] == "const" and dflt[1] in (0, False, "false")
        return False
    g = L.guard_edges(cs, positive, True)
    still = L.dominated_by_cut(cs, trues, g) if g else trues
    ctx.check(bool(trues) and bool(g) and not still, R, "check_subsume:true-only-if-contained",
              "the result becomes true only on the edge where is_contained_in_prefixes(..).unwrap_or(false) is true",
              "check_subsume can answer true without a positive containment answer", site=cs.where())
    # (self.subsumable only prunes lexemes that cannot contain a slice — `attr_has_repeat` — it is an optimisation,
    # not a soundness condition: lazy lexemes are excluded by subsume_possible (R1); no obligation is attached to it)
    # Lexer::check_subsume forwards the state unchanged and maps the slice index through extra_lexeme
    lx = ctx.body("llguidance::earley::lexer::Lexer::check_subsume")
    fw = [(bi, t) for bi, t in lx.calls() if t["f"].get("def") == RV + "::check_subsume"]
    if ctx.floor(R, "Lexer::check_subsume forwarding call", len(fw), 1):
        bi, t = fw[0]
        roles = [L.role(lx, a, depth=10) for a in t["args"]]
        ctx.check(roles[1] == "param:2" and roles[2].startswith("call:extra_lexeme(") and roles[2].endswith(",param:3)") and roles[3] == "param:4",
                  R, "Lexer::check_subsume:forwards", "state, extra_lexeme(extra_idx) and budget are forwarded unchanged",
                  "Lexer::check_subsume forwards %s" % roles[1:], site=lx.where(bi))


def subsume_guard(ctx, R):
    """The shortcut may be taken only in lexer states where containment is meaningful: subsume_possible() must be false
    for dead / errored states and whenever a lazy lexeme is live (a lazy lexeme ends at its first match, so tokens of
    a contained slice can run past it).  Shared by C01, C02 and C10."""
    P = ctx.prog
    sp = ctx.body(RV + "::subsume_possible")
    # blocks that may give the result a value other than the literal `false`
    rets_true = []
    ret_exprs = {}
    for bi, si, st in sp.statements():
        if st["s"] == "assign" and st["p"] == [0] and not (st["r"]["rv"] == "use" and st["r"]["o"].get("iv") == "0"):
            rets_true.append(bi)
            ret_exprs[bi] = sp.expr_rvalue(st["r"])
    for bi, t in sp.calls():
        if t["dest"] == [0]:
            rets_true.append(bi)
            ret_exprs[bi] = ("call", t["f"].get("def", "?"), [sp.expr(a) for a in t["args"]], bi)
    if ctx.floor(R, "`true` return in subsume_possible", len(rets_true), 1):
        for name, pred in (("state.is_dead()", lambda e: e[0] == "call" and e[1].endswith("StateID::is_dead")),
                           ("has_error()", lambda e: e[0] == "call" and e[1] == RV + "::has_error")):
            edges = L.guard_edges(sp, pred, False)
            still = L.dominated_by_cut(sp, rets_true, edges) if edges else rets_true
            ctx.check(bool(edges) and not still, R, "subsume_possible:false-if:" + name,
                      "`true` is returned only when !%s" % name, "subsume_possible can return true although %s" % name, site=sp.where())
        is_lazy = lambda e: e[0] == "call" and e[1].endswith("LexemeSet::contains") and e[2] and L.is_field_read(RV, "lazy")(L.strip_views(e[2][0]))
        lz = L.guard_edges(sp, is_lazy, True)
        reach = set()
        for (_, t) in lz:
            reach |= sp.reachable(t)
        lazy_ok = bool(lz) and not (reach & set(rets_true))
        if lz:
            # loop form: `true` only after the scan over the state's lexemes is exhausted (the None edge of the iterator) —
            # an early `return true` would leave lexemes with a higher index unchecked
            none_edges = []
            for bi, e, targets, otherwise in sp.switch_edges():
                if e[0] == "discr" and e[1][0] == "call" and e[1][1].endswith("::next"):
                    none_edges += [(bi, tb) for v, tb in targets if v == 0]
            early = L.dominated_by_cut(sp, rets_true, none_edges) if none_edges else rets_true
            ctx.check(bool(none_edges) and not early, R, "subsume_possible:true-only-after-full-scan",
                      "`true` is returned only after every lexeme of the state has been tested for laziness",
                      "subsume_possible can return true before all lexemes of the state were tested: a lazy lexeme with a higher "
                      "index goes unnoticed and the slice shortcut is taken in a state where it is unsound", site=sp.where())
        if not lz:
            # iterator form: the result is `!iter.any(|(idx, _)| self.lazy.contains(idx))`
            def any_lazy(e):
                cur, pol = F.peel_polarity(e)
                if pol or cur[0] != "call" or not cur[1].endswith("::any") or len(cur[2]) < 2:
                    return False
                for c in L._closures_in(cur[2][1]):
                    clb = P.any_body(c)
                    if clb is None:
                        continue
                    def lazy_upvar(x, _clb=clb):
                        if not (x[0] == "call" and x[1].endswith("LexemeSet::contains") and x[2]):
                            return False
                        src = L.upvar_source(P, _clb, L.strip_views(x[2][0]))
                        return src is not None and L.is_field_read(RV, "lazy")(L.strip_views(src))
                    if L._returns_guard_value(clb, [(lazy_upvar, True)]):
                        return True
                return False
            lazy_ok = bool(rets_true) and all(any_lazy(ret_exprs[b]) for b in rets_true)
        ctx.check(lazy_ok, R, "subsume_possible:false-if-lazy-lexeme",
                  "a live lazy lexeme makes subsume_possible return false",
                  "subsume_possible returns true although a lazy lexeme is live in the state", site=sp.where())



def run(ctx):
    P = ctx.prog
    subsume_operands(ctx, "C10-R4")
    # R5: mask_trimmed must keep every set bit: trim_trailing_zeros (adopted from C16-R2)
    ctx.import_clauses("c16", "C16-R2", ["trim_trailing_zeros:"], "C10-R5")
    cb = ctx.body(SBC)
    ap = ctx.body(TS + "::apply")
    # ---------------------------------------------------------------- R1
    app_sites = cb.call_blocks(TS + "::apply")
    if ctx.floor("C10-R1", "top_slice.apply site in compute_bias", len(app_sites), 1):
        conj = {
            "!children.is_empty()": (lambda e: e[0] == "call" and e[1].endswith("::is_empty") and e[2] and L.is_field_read(TS, "children")(e[2][0]), False),
            "start.is_empty()": (lambda e: e[0] == "call" and e[1] == "core::slice::<impl [T]>::is_empty", True),
            "subsume_possible(lexer_state)": (lambda e: e[0] == "call" and e[1].endswith("::subsume_possible"), True),
        }
        for name, (pred, truth) in conj.items():
            edges = L.guard_edges(cb, pred, truth)
            still = L.dominated_by_cut(cb, app_sites, edges) if edges else app_sites
            ctx.check(bool(edges) and not still, "C10-R1", "compute_bias:apply-under:" + name,
                      "slice application is dominated by `%s`" % name,
                      "SlicedBiasComputer::compute_bias applies slice masks without `%s`: pre-computed masks are only valid for the "
                      "unrestricted state" % name, site=cb.where(app_sites[0]))
        # subsume_possible's argument is the current lexer state
        sp = [bi for bi, t in cb.calls() if t["f"].get("def", "").endswith("::subsume_possible")]
        if sp:
            e = cb.expr(cb.blocks[sp[0]]["term"]["args"][1])
            ctx.check(e[0] == "call" and e[1].endswith("ParserRecognizer::<'_>::lexer_state") or (e[0] == "call" and "lexer_state" in e[1]),
                      "C10-R1", "compute_bias:subsume-on-current-state", "subsume_possible is asked about rec.lexer_state()",
                      "subsume_possible is evaluated on %s, not the current lexer state" % F.fmt_expr(e), site=cb.where(sp[0]))
    ors = [bi for bi, t in ap.calls() if t["f"].get("def") == SV + "or"]
    if ctx.floor("C10-R1", "trg.or(mask) site in TokenizerSlice::apply", len(ors), 1):
        g = L.guard_edges(ap, L.is_call_to(TS + "::matches"), True)
        still = L.dominated_by_cut(ap, ors, g) if g else ors
        ctx.check(bool(g) and not still, "C10-R1", "apply:or-under-matches", "the mask OR is dominated by matches(rec) == true",
                  "TokenizerSlice::apply ORs the slice mask without the containment check", site=ap.where(ors[0]))
        e = ap.expr(ap.blocks[ors[0]]["term"]["args"][1])
        ok = e[0] in ("ref", "place") and F.place_fields(e[1])[-1:] == [(TS, "mask_trimmed")]
        ctx.check(ok, "C10-R1", "apply:or-operand", "the OR-ed mask is self.mask_trimmed", "apply ORs %s" % F.fmt_expr(e), site=ap.where(ors[0]))
    ma = ctx.body(TS + "::matches")
    cs = [bi for bi, t in ma.calls() if t["f"].get("def", "").endswith("Lexer::check_subsume")]
    uo = [bi for bi, t in ma.calls() if t["f"].get("def", "").endswith("::unwrap_or")]
    ok = False
    for bi in uo:
        t = ma.blocks[bi]["term"]
        e0 = ma.expr(t["args"][0])
        e1 = ma.expr(t["args"][1])
        ok = ok or (e0[0] == "call" and e0[1].endswith("Lexer::check_subsume") and e1[0] == "const" and e1[1] == 0)
    ctx.check(bool(cs) and ok, "C10-R1", "matches:error-means-not-contained", "matches() = check_subsume(..).unwrap_or(false)",
              "TokenizerSlice::matches no longer maps a check_subsume error to `false`", site=ma.where())
    g = L.guard_edges(ma, lambda e: e[0] == "call" and e[1].endswith("::is_empty") and e[2] and L.is_field_read(TS, "regex")(e[2][0]), False)
    still = L.dominated_by_cut(ma, cs, g) if g else cs
    ctx.check(bool(g) and not still, "C10-R1", "matches:wildcard-never-matches", "the wildcard slice (empty regex) never matches",
              "matches() consults containment for the wildcard slice", site=ma.where())
    if cs:
        t = ma.blocks[cs[0]]["term"]
        e = ma.expr(t["args"][2])
        ok = e[0] == "place" and F.place_fields(e[1])[-1:] == [(TS, "idx")]
        ctx.check(ok, "C10-R1", "matches:checks-own-regex", "check_subsume is asked about this slice's own regex (self.idx)",
                  "matches() passes %s as the slice index" % F.fmt_expr(e), site=ma.where(cs[0]))
    subsume_guard(ctx, "C10-R1")

    # ---------------------------------------------------------------- R2 un-applied part is walked
    # `return true` blocks of apply
    t_rets = []
    f_rets = []
    for bi, si, st in ap.statements():
        if st["s"] == "assign" and st["p"] == [0] and st["r"]["rv"] == "use" and "iv" in st["r"]["o"]:
            (t_rets if st["r"]["o"]["iv"] == "1" else f_rets).append(bi)
    walks = [bi for bi, t in ap.calls() if t["f"].get("def") == TRIE + "add_bias"]
    if ctx.floor("C10-R2", "`true` returns of apply", len(t_rets), 2):
        covered = set(ors) | set(walks)
        bad = [r for r in t_rets if r in ap.reachable(0, cut_blocks=covered)]
        ctx.check(not bad, "C10-R2", "apply:true-only-after-or-or-walk",
                  "every `true` return of apply() is preceded by the mask OR or by an add_bias walk",
                  "TokenizerSlice::apply can report 'applied' without having contributed its tokens", site=ap.where(bad[0]) if bad else None)
    # operand of the residual walk is one of the residual tries (walks of un-applied children — under the
    # `!applied_indices.contains(idx)` guard — are judged separately below)
    g_unapplied = L.guard_edges(ap, lambda e: e[0] == "call" and e[1].endswith("::contains"), False)
    for bi in walks:
        if g_unapplied and bi not in ap.reachable(0, cut_edges=g_unapplied):
            continue
        e = ap.expr(ap.blocks[bi]["term"]["args"][0])
        fs = F.place_fields(e[1]) if e[0] in ("ref", "place") else []
        txt = repr(e)
        ok = "trie_without_child" in txt or "trie_without_children" in txt or e[0] == "local" or (e[0] in ("ref", "place") and not fs)
        ctx.check(ok, "C10-R2", "apply:residual-walk-operand@%s" % ap.where(bi).rsplit(":", 1)[1],
                  "the residual walk uses trie_without_child[i] / trie_without_children", "apply walks %s" % F.fmt_expr(e), site=ap.where(bi))
    # `to_apply` sources: exactly the two residual tries
    # (the multiply-assigned &TokTrie local that is the receiver of the residual add_bias walk — found by data flow)
    ta = None
    for bi in walks:
        pl = F.op_place(ap.blocks[bi]["term"]["args"][0])
        l = pl[0] if pl else None
        for _ in range(4):
            ds = ap.defs().get(l, []) if l is not None else []
            if len(ds) == 1 and ds[0][2] == "assign" and ds[0][3]["rv"] in ("use", "ref"):
                nx = F.op_place(ds[0][3]["o"]) if ds[0][3]["rv"] == "use" else ds[0][3]["p"]
                if nx and len(nx) <= 2 and len(ap.defs().get(nx[0], [])) >= 1 and not F.place_fields(nx):
                    l = nx[0]
                    continue
            break
        if l is not None and len(ap.defs().get(l, [])) >= 2 and "TokTrie" in ap.local_ty(l):
            ta = l
    if ta is not None:
        srcs = set()
        for (bi, si, kind, payload) in ap.defs().get(ta, []):
            if kind == "assign":
                e = ap.expr_rvalue(payload)
                txt = repr(e)
                if "trie_without_children" in txt:
                    srcs.add("trie_without_children")
                elif "trie_without_child" in txt:
                    srcs.add("trie_without_child[i]")
                else:
                    srcs.add(F.fmt_expr(e))
        ctx.check(srcs == {"trie_without_children", "trie_without_child[i]"}, "C10-R2", "apply:to_apply-sources",
                  "to_apply is trie_without_child[first_applied] (one child applied) or trie_without_children (several)",
                  "to_apply is assigned from %s" % sorted(srcs), site=ap.where())
    else:
        ctx.violation("C10-R2", "anchor-missing:apply.to_apply", "local to_apply not found in TokenizerSlice::apply")
    # un-applied children are walked in the multi-child arm
    # (the walk is `child.trie_apply(..)`, or — when that helper is inlined — `child.trie_with_children.add_bias(..)`)
    g = L.guard_edges(ap, lambda e: e[0] == "call" and e[1].endswith("::contains"), False)
    ta_calls = ap.call_blocks(TS + "::trie_apply")
    in_loop = set()
    for (_, t) in g:
        in_loop |= ap.reachable(t, cut_edges=[])
    direct, wrong = [], []
    for bi, t in ap.calls():
        if t["f"].get("def") != TRIE + "add_bias" or not g:
            continue
        if bi in ap.reachable(0, cut_edges=g):
            continue   # reachable without `!applied_indices.contains(idx)`: not the un-applied walk
        e = ap.expr(t["args"][0])
        last = F.place_fields(e[1])[-1:] if e[0] in ("ref", "place") else []
        (direct if last == [(TS, "trie_with_children")] else wrong).append(bi)
    walks = ta_calls + direct
    still = L.dominated_by_cut(ap, walks, g) if g else walks
    ctx.check(bool(walks) and bool(g) and not still and not wrong, "C10-R2", "apply:unapplied-children-walked",
              "children not in applied_indices are walked whole (trie_apply / trie_with_children.add_bias)",
              "apply no longer walks the children it did not apply with their full trie (trie_with_children): %s" % (
                  "an un-applied child is walked with a residual trie, so the tokens of the slices nested under it are neither OR-ed in nor walked"
                  if wrong else "no guarded walk found"), site=ap.where(wrong[0]) if wrong else ap.where())
    # the optional short-cut around that loop may only be `applied_indices.len() < children.len()` (or equivalent)
    loop_guards = []
    for bi, e, targets, otherwise in ap.switch_edges():
        cur, pol = F.peel_polarity(e)
        if cur[0] == "bin" and cur[1] in ("Lt", "Gt", "Ne", "Le", "Ge", "Eq"):
            txt = repr(cur)
            if "applied_indices" in txt or ("children" in txt and "len" in txt):
                loop_guards.append((bi, cur))
    for bi, cur in loop_guards:
        a, b_ = cur[2], cur[3]
        def is_len_of(x, what):
            return x[0] == "call" and x[1].endswith("::len") and what in repr(x[2])
        def is_len_local(x):
            return x[0] == "call" and x[1].endswith("::len")
        shape_ok = (cur[1] in ("Lt", "Ne") and is_len_local(a) and is_len_of(b_, "children")) or \
                   (cur[1] in ("Gt", "Ne") and is_len_of(a, "children") and is_len_local(b_))
        ctx.check(shape_ok, "C10-R2", "apply:unapplied-loop-guard", "the loop over un-applied children is skipped only when all children were applied (len < len)",
                  "the guard around the un-applied-children walk is `%s`: children can be skipped although they were not applied" % F.fmt_expr(cur),
                  site=ap.where(bi))
    tap = P.bodies.get(TS + "::trie_apply")
    if tap is not None:
        w = [bi for bi, t in tap.calls() if t["f"].get("def") == TRIE + "add_bias"]
        ok = False
        if w:
            e = tap.expr(tap.blocks[w[0]]["term"]["args"][0])
            ok = e[0] in ("ref", "place") and F.place_fields(e[1])[-1:] == [(TS, "trie_with_children")]
        ctx.check(ok, "C10-R2", "trie_apply:walks-full-slice", "trie_apply walks trie_with_children", "trie_apply walks something else", site=tap.where())
    else:
        ctx.check(bool(direct), "C10-R2", "trie_apply:walks-full-slice", "the un-applied walk uses trie_with_children directly (helper inlined)",
                  "neither trie_apply nor a direct trie_with_children walk exists", site=ap.where())
    # fall-back arm of compute_bias
    fw = [bi for bi, t in cb.calls() if t["f"].get("def") == TRIE + "add_bias"]
    if ctx.floor("C10-R2", "fall-back walk in compute_bias", len(fw), 1):
        t = cb.blocks[fw[0]]["term"]
        e0 = cb.expr(t["args"][0])
        ok0 = e0[0] in ("ref", "place") and F.place_fields(e0[1])[-1:] == [(TS, "trie_with_children")]
        e3 = cb.expr(t["args"][3])
        ok3 = L.root_local(cb, e3) == 3 or (e3[0] in ("place", "ref") and e3[1][0] == 3)
        ctx.check(ok0 and ok3, "C10-R2", "compute_bias:fallback-full-walk", "the fall-back walks top_slice.trie_with_children with the original start",
                  "the fall-back walk of compute_bias uses (%s, %s)" % (F.fmt_expr(e0), F.fmt_expr(e3)), site=cb.where(fw[0]))
        # every path to the return passes apply()==true or the fall-back walk
        ok_edges = L.guard_edges(cb, L.is_call_to(TS + "::apply"), True)
        ret = cb.return_blocks()
        reach = cb.reachable(0, cut_blocks=fw, cut_edges=ok_edges)
        ctx.check(not (set(ret) & reach), "C10-R2", "compute_bias:applied-or-walked",
                  "the mask is returned only after apply()==true or the fall-back walk",
                  "compute_bias can return a mask that was neither produced by apply() nor by the fall-back walk", site=cb.where())

    # ---------------------------------------------------------------- R3 slice masks under-approximate
    ft = ctx.body(TS + "::from_topo_node")
    al = [bi for bi, t in ft.calls() if t["f"].get("def") == SV + "allow_token"]
    if ctx.floor("C10-R3", "allow_token site in from_topo_node", len(al), 1):
        g1 = L.guard_edges(ft, lambda e: e[0] == "call" and e[1].endswith("Regex::is_match_bytes"), True)
        g2 = L.guard_edges(ft, lambda e: e[0] == "call" and e[1] == "core::slice::<impl [T]>::is_empty", False)
        for name, g in (("rx.is_match_bytes(token)", g1), ("!token.is_empty()", g2)):
            still = L.dominated_by_cut(ft, al, g) if g else al
            ctx.check(bool(g) and not still, "C10-R3", "slice-mask:allow-under:" + name, "allow_token is dominated by `%s`" % name,
                      "a token enters a slice mask without `%s`" % name, site=ft.where(al[0]))
        # the matched bytes are the token's bytes
        im = [bi for bi, t in ft.calls() if t["f"].get("def", "").endswith("Regex::is_match_bytes")]
        for k, ib in enumerate(im):
            e = ft.expr(ft.blocks[ib]["term"]["args"][1])
            ctx.check(e[0] == "call" and e[1] == TRIE + "token", "C10-R3", "slice-mask:matches-token-bytes#%d" % k,
                      "the regex is matched against the whole trie.token(tok_idx)", "is_match_bytes is applied to %s, not the token's full bytes" % F.fmt_expr(e), site=ft.where(ib))
        ctx.check(len(im) == 1, "C10-R3", "slice-mask:single-match-test", "one full-match test decides slice membership",
                  "%d is_match_bytes tests decide slice membership" % len(im), site=ft.where())
    # set_all(true) only for the wildcard
    sa = [bi for bi, t in ft.calls() if t["f"].get("def") == SV + "set_all"]
    g = L.guard_edges(ft, lambda e: e[0] == "call" and e[1].endswith("String::is_empty"), True)
    still = L.dominated_by_cut(ft, sa, g) if g else sa
    ctx.check(bool(sa) and bool(g) and not still, "C10-R3", "slice-mask:set_all-only-wildcard", "set_all(true) only for the wildcard (empty regex)",
              "a non-wildcard slice mask is initialised to all-ones", site=ft.where())
    # residual masks by subtraction only
    subs = [bi for bi, t in ft.calls() if t["f"].get("def") == SV + "sub"]
    ors_ft = [bi for bi, t in ft.calls() if t["f"].get("def", "") in (SV + "or", SV + "or_minus")]
    ctx.check(len(subs) >= 2 and not ors_ft, "C10-R3", "residual-masks:sub-only", "residual masks are computed with sub() (%d sites), never or()" % len(subs),
              "from_topo_node combines masks with or(): residual tries would over-approximate", site=ft.where())
    for bi in subs:
        e = ft.expr(ft.blocks[bi]["term"]["args"][1])
        ok = e[0] in ("ref", "place") and F.place_fields(e[1])[-1:] == [(TS, "mask_with_children")]
        ctx.check(ok, "C10-R3", "residual-masks:sub-operand@%s" % ft.where(bi).rsplit(":", 1)[1], "subtracts the child's mask_with_children",
                  "sub() operand is %s" % F.fmt_expr(e), site=ft.where(bi))
    # ---- roles of the SimpleVob locals of from_topo_node, decided from how each is produced and mutated (not from names)
    #   base     : allocated with alloc_token_set, filled with allow_token / set_all          (the slice's full token set)
    #   residual : clone of base that is only ever sub()-ed                                   (base minus child masks)
    #   trimmed  : clone of base that is only ever trim_trailing_zeros()-ed
    vob_locals = [l for l in range(len(ft.locals)) if ft.local_ty(l) == SVT and (ft.locals[l].get("n") or len(ft.defs().get(l, [])) == 1)]
    muts = {l: set() for l in vob_locals}
    for bi, t in ft.calls():
        d = t["f"].get("def", "")
        if d.startswith(SV) and t["args"]:
            hb = P.bodies.get(d)
            if hb is not None and hb.local_ty(1).startswith("&mut"):
                l = L.root_local(ft, ft.expr(t["args"][0]))
                if l in muts:
                    muts[l].add(d[len(SV):])

    def origin(l):
        ds = ft.defs().get(l, [])
        if len(ds) != 1:
            return ("?", None)
        bi, si, kind, payload = ds[0]
        if kind == "call" and payload.get("_inl_src"):
            # result of a spliced helper: follow the real data flow (dest = move <helper's return slot>)
            src = F.op_place(payload["_inl_src"]["o"]) if payload["_inl_src"].get("rv") == "use" else None
            return origin(src[0]) if src and len(src) == 1 else ("?", None)
        if kind == "call":
            d = payload["f"].get("def", "")
            if d.endswith("TokTrie::alloc_token_set"):
                return ("alloc", None)
            if d.endswith("Clone>::clone") and payload["args"]:
                return ("clone", L.root_local(ft, ft.expr(payload["args"][0])))
        if kind == "assign" and payload["rv"] == "use":
            pl = F.op_place(payload["o"])
            if pl and len(pl) == 1:
                return origin(pl[0])
        return ("?", None)
    role_of = {}
    for l in vob_locals:
        o, src = origin(l)
        if o == "alloc" and muts[l] and muts[l] <= {"allow_token", "set_all"}:
            role_of[l] = "base"
    bases = [l for l, r in role_of.items() if r == "base"]
    for l in vob_locals:
        o, src = origin(l)
        if o == "clone" and src in bases:
            if muts[l] and muts[l] <= {"sub"}:
                role_of[l] = "residual"
            elif muts[l] <= {"trim_trailing_zeros"}:
                role_of[l] = "trimmed"
    def alias(l, depth=6):
        """the roled local whose value `l` holds (moves, results of spliced helpers)"""
        while l is not None and l not in role_of and depth > 0:
            depth -= 1
            ds = ft.defs().get(l, [])
            if len(ds) != 1:
                return None
            bi, si, kind, payload = ds[0]
            src = None
            if kind == "call" and payload.get("_inl_src") and payload["_inl_src"].get("rv") == "use":
                src = F.op_place(payload["_inl_src"]["o"])
            elif kind == "assign" and payload["rv"] == "use":
                src = F.op_place(payload["o"])
            l = src[0] if src and len(src) == 1 else None
        return l
    for l in list(vob_locals) + [x for x in range(len(ft.locals)) if ft.local_ty(x) == SVT and x not in vob_locals]:
        if l not in role_of:
            a_ = alias(l)
            if a_ is not None and a_ in role_of and not muts.get(l):
                role_of[l] = role_of[a_]
    ctx.check(len(bases) == 1, "C10-R3", "slice-mask:one-base-mask", "one token set is allocated and filled by the match loop",
              "expected one base mask (alloc_token_set + allow_token/set_all) in from_topo_node, found %d" % len(bases), site=ft.where())

    def op_local(o):
        """the variable an operand moves/copies/borrows from, through unnamed single-definition temporaries"""
        pl = F.op_place(o)
        if not pl:
            return None
        l = pl[0]
        for _ in range(6):
            ds = ft.defs().get(l, [])
            if ft.locals[l].get("n") or len(ds) != 1 or ds[0][2] != "assign":
                break
            r = ds[0][3]
            nxt = F.op_place(r["o"]) if r["rv"] == "use" else (r["p"] if r["rv"] == "ref" else None)
            if not nxt:
                break
            l = nxt[0]
        return l

    def vob_role(o_or_e, is_expr=False):
        if not is_expr:
            l0 = op_local(o_or_e)
            if l0 in role_of:
                return role_of[l0]
        e = o_or_e if is_expr else ft.expr(o_or_e)
        l = L.root_local(ft, e)
        if l is None and e[0] == "local":
            l = e[1]
        # moved named local -> temp
        seen = 0
        while l is not None and l not in role_of and seen < 4:
            ds = ft.defs().get(l, [])
            if len(ds) == 1 and ds[0][2] == "assign" and ds[0][3]["rv"] == "use":
                pl = F.op_place(ds[0][3]["o"])
                l = pl[0] if pl and len(pl) == 1 else None
            else:
                break
            seen += 1
        return role_of.get(l, "?")

    # the tries are filtered from exactly: base, a per-child residual, the all-children residual
    fl = [bi for bi, t in ft.calls() if t["f"].get("def") == TRIE + "filter"]
    ctx.floor("C10-R3", "trie.filter sites in from_topo_node", len(fl), 3)
    froles = sorted(vob_role(ft.blocks[bi]["term"]["args"][1]) for bi in fl)
    ctx.check(froles == ["base", "residual", "residual"], "C10-R3", "tries-filtered-from-masks",
              "the three tries are filtered with the base mask and with two residual (base − child masks) masks",
              "trie.filter is applied to masks with roles %s (expected base, residual, residual)" % froles, site=ft.where())
    # struct literal: which value goes into which field
    inits = [x for x in L.struct_inits(P, TS) if x[0].id == ft.id]
    if ctx.floor("C10-R3", "TokenizerSlice literal", len(inits), 1):
        b, bi, fm, _ = inits[0]
        def filter_arg_role(o):
            e = ft.expr(o)
            l = L.root_local(ft, e) if e[0] != "call" else None
            if e[0] != "call" and l is not None:
                ds = ft.defs().get(l, [])
                if len(ds) == 1 and ds[0][2] == "call":
                    e = ("call", ds[0][3]["f"].get("def", ""), [ft.expr(a) for a in ds[0][3]["args"]], ds[0][0])
                elif len(ds) == 1 and ds[0][2] == "assign" and ds[0][3]["rv"] == "use":
                    return filter_arg_role(ds[0][3]["o"])
            if e[0] == "call" and e[1] == TRIE + "filter" and len(e[2]) >= 2:
                return "filter(%s)" % vob_role(e[2][1], is_expr=True)
            return "?"
        want = {"mask_with_children": "base", "mask_trimmed": "trimmed"}
        for fld, w in want.items():
            r = vob_role(fm[fld])
            ctx.check(r == w, "C10-R3", "slice-fields:" + fld, "field %s holds the %s mask" % (fld, w),
                      "TokenizerSlice.%s is initialised from a mask with role `%s` (expected %s): the OR-ed mask is not the slice's "
                      "full token set" % (fld, r, w), site=ft.where(bi))
        for fld, w in (("trie_with_children", "filter(base)"), ("trie_without_children", "filter(residual)")):
            r = filter_arg_role(fm[fld])
            ctx.check(r == w, "C10-R3", "slice-fields:" + fld, "field %s = trie.%s" % (fld, w),
                      "TokenizerSlice.%s is built as %s (expected %s)" % (fld, r, w), site=ft.where(bi))
        # trie_without_child: a vector that receives filter(residual) per child
        vl = op_local(fm["trie_without_child"])
        pushed = []
        for pbi, t in ft.calls():
            if t["f"].get("def", "").endswith("Vec::<T, A>::push") and op_local(t["args"][0]) == vl and vl is not None:
                pushed.append(filter_arg_role(t["args"][1]))
        ctx.check(pushed == ["filter(residual)"], "C10-R3", "slice-fields:trie_without_child",
                  "trie_without_child collects one filter(base − that child's mask) per child",
                  "TokenizerSlice.trie_without_child collects %s" % pushed, site=ft.where(bi))
        # the two residuals differ: the per-child one is created inside the child loop (a fresh clone per iteration), the
        # all-children one before it — i.e. the per-child residual's clone is dominated by the recursive call's block
        rec = ft.call_blocks(ft.id)
        resid = [l for l, r in role_of.items() if r == "residual"]
        inside = [l for l in resid if rec and all(ft.dominates(rb, ft.defs()[l][0][0]) for rb in rec)]
        outside = [l for l in resid if l not in inside]
        ctx.check(len(inside) == 1 and len(outside) == 1, "C10-R3", "residual-masks:per-child-and-all-children",
                  "one residual is re-created per child (base − that child), one accumulates all children",
                  "expected one per-child residual (cloned after the recursive call) and one accumulated residual, found %d / %d"
                  % (len(inside), len(outside)), site=ft.where())
