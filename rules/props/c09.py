"""C09 — repetition counts and length bounds are exact (structural clauses)."""
import re

from .. import facts as F
from .. import lib as L

GB = "llguidance::grammar_builder::GrammarBuilder"
RB = "llguidance::grammar_builder::RegexBuilder"
LC = "llguidance::lark::compiler::Compiler"
JC = "llguidance::json::compiler::Compiler"

META = dict(
    explanation=(
        "Static analysis (table agreement on literal operands, def-use, dispatch dominance). Decided clauses: R1 the "
        "operator tables — at terminal level `*`,`+`,`?` dispatch to RegexBuilder::zero_or_more / one_or_more / optional "
        "and `{m,n}` to repeat(atom, m, if n == i32::MAX {None} else {Some(n)}); these helpers call repeat(node, 0, None), "
        "(1, None), (0, Some(1)) and repeat hands (min, max.unwrap_or(u32::MAX)) to RegexAst::Repeat; at rule level the same "
        "operators dispatch to GrammarBuilder::zero_or_more / one_or_more / optional / repeat; R2 rule shapes — optional "
        "adds exactly the rules [] and [value], one_or_more [elt] and [p, elt], zero_or_more [] and [p, elt], with p the "
        "fresh wrapper node; repeat asserts min <= max and dispatches None -> at_least, min == max -> repeat_exact, "
        "min == 0 -> at_most, otherwise repeat_exact(min) ++ at_most(max - min); at_least = repeat_exact(n) ++ "
        "zero_or_more; R3 the JSON string length regex is the template `(?s:.{MIN,MAX})` filled with (min_length, "
        "max_length) in that order; array/object counts reach bounded_sequence / the array loop in (min, max) order; R4 the memo caches of "
        "at_most / repeat_exact / string are read and filled only by their own function."
    ),
    not_decided=(
        "that the Earley engine derives what the rules say; the arithmetic of bounded_sequence; the base of the induction "
        "behind R6 (R6 decides the inductive step of the factorisation: each helper meets its contract given the contracts "
        "of the helpers it calls)"
    ),
)
META["explanation"] += (
    " Added after the independent seeding rounds 2-3: " 'R4 memo caches are private to their function and keyed by its arguments. R5 bounded_sequence budget guard (shared with C06-R6). R7 (round 4, adopted from C08-R1) min/max Length, Items, Properties are combined by Schema::intersect with max / opt_min (None = unbounded) of the same field of both operands. R6 (round 4) repetition-count algebra: the node returned by simple_repeat / repeat_exact / at_most / at_least / repeat derives exactly the counts of its contract — count sets are computed symbolically (unions of arithmetic progressions with bounds linear in n, n/K, n%K) from the expression tree of the returned node, under the equalities of the dominating branch conditions.'
)


def const_int(e):
    return e[1] if e[0] == "const" else None


def opt_of(b, e):
    """('None',) or ('Some', inner-expr) for an Option operand expression"""
    if e[0] == "agg" and isinstance(e[1], dict) and e[1].get("adt") == "core::option::Option":
        return (e[1]["variant"],) + tuple(e[2])
    if e[0] == "const" and "None" in str(e[3]):
        return ("None",)
    return None


def slice_len(b, arg):
    """length of a `&[..]` literal passed as argument (array temp or promoted empty array)"""
    o = arg
    p = F.op_place(o)
    if p is None:
        m = re.search(r"; (\d+)\]", o.get("ty", ""))
        return int(m.group(1)) if m else None
    for _ in range(6):
        ds = b.defs().get(p[0], [])
        if len(ds) != 1 or ds[0][2] != "assign":
            return None
        r = ds[0][3]
        if r["rv"] == "agg" and r["kind"] == "array":
            return len(r["ops"])
        if r["rv"] == "cast" or r["rv"] == "use":
            q = F.op_place(r["o"])
            if q is None:
                m = re.search(r"; (\d+)\]", r["o"].get("ty", ""))
                return int(m.group(1)) if m else None
            p = q
        elif r["rv"] == "ref":
            p = r["p"]
            if len(p) > 1 and p[1] == "*":
                p = [p[0]]
            else:
                # reference to the array local itself
                ds2 = b.defs().get(p[0], [])
                if len(ds2) == 1 and ds2[0][2] == "assign" and ds2[0][3]["rv"] == "agg" and ds2[0][3]["kind"] == "array":
                    return len(ds2[0][3]["ops"])
                m = re.search(r"; (\d+)\]", b.local_ty(p[0]))
                return int(m.group(1)) if m else None
        else:
            return None
    return None


def slice_elems(b, arg):
    p = F.op_place(arg)
    for _ in range(6):
        if p is None:
            return []
        ds = b.defs().get(p[0], [])
        if len(ds) != 1 or ds[0][2] != "assign":
            return None
        r = ds[0][3]
        if r["rv"] == "agg" and r["kind"] == "array":
            return [L.role(b, o) for o in r["ops"]]
        if r["rv"] in ("cast", "use"):
            p = F.op_place(r["o"])
        elif r["rv"] == "ref":
            p = [r["p"][0]]
        else:
            return None
    return None


def op_dispatch(ctx, b, rule, prefix, table):
    """for each operator literal, the call reached on the `==` true edge is the expected helper and none of the others"""
    helpers = set(table.values())
    for op, want in table.items():
        edges = L.guard_edges(b, lambda e: e[0] == "call" and e[1].endswith("PartialEq for str>::eq") and any(
            x[0] == "const" and x[1] == op for x in e[2]), True)
        if not edges:
            ctx.violation(rule, "%s:op-literal-missing:%s" % (prefix, op), "%s no longer compares the operator with %r" % (b.id, op), site=b.where())
            continue
        reach = set()
        for (_, t) in edges:
            # stop at the next operator comparison
            reach |= b.reachable(t)
        called = set()
        for bi, t in b.calls():
            if bi in reach and t["f"].get("def") in helpers:
                # only the first helper reachable before returning: helpers sit in different arms, so restrict to the arm:
                called.add(t["f"]["def"])
        # the arm of `op` is the region reachable from its true edge but not from the false edge of the same test
        arm = set()
        for (sb, t) in edges:
            others = [s for s in b.succs(sb) if s != t]
            r_false = set()
            for o in others:
                r_false |= b.reachable(o)
            arm |= (b.reachable(t) - r_false)
        called = set(t["f"]["def"] for bi, t in b.calls() if bi in arm and t["f"].get("def") in helpers)
        ctx.check(called == {want}, rule, "%s:op:%s" % (prefix, op), "`%s` -> %s" % (op, want.rsplit("::", 1)[1]),
                  "%s maps operator `%s` to %s (expected %s): the repetition count set changes" % (b.id, op, sorted(x.rsplit("::", 1)[1] for x in called), want.rsplit("::", 1)[1]),
                  site=b.where())


def range_dispatch(ctx, b, rule, prefix, repeat_fn):
    sites = b.call_blocks(repeat_fn)
    if not ctx.floor(rule, "%s: repeat call for {m,n}" % prefix, len(sites), 1):
        return
    t = b.blocks[sites[0]]["term"]
    # third argument: Option built as None under `end == i32::MAX`, Some(end) otherwise
    l = F.op_place(t["args"][3])
    ds = b.defs().get(l[0], []) if l else []
    kinds = []
    for (bi, si, kind, payload) in ds:
        if kind == "assign" and payload["rv"] == "agg" and isinstance(payload["kind"], dict):
            kinds.append((payload["kind"].get("variant"), bi))
    vs = sorted(k for k, _ in kinds)
    ctx.check(vs == ["None", "Some"], rule, prefix + ":range-max-option", "the upper bound is None or Some(n)",
              "%s builds the upper repetition bound as %s" % (b.id, vs), site=b.where(sites[0]))
    g = L.guard_edges(b, lambda e: e[0] == "bin" and e[1] == "Eq" and e[3][0] == "const" and (e[3][1] == 2147483647 or "MAX" in str(e[3][3])), True)
    none_b = [bi for k, bi in kinds if k == "None"]
    some_b = [bi for k, bi in kinds if k == "Some"]
    ok = bool(g) and bool(none_b) and not L.dominated_by_cut(b, none_b, g)
    g2 = L.guard_edges(b, lambda e: e[0] == "bin" and e[1] == "Eq" and e[3][0] == "const" and (e[3][1] == 2147483647 or "MAX" in str(e[3][3])), False)
    ok = ok and bool(g2) and bool(some_b) and not L.dominated_by_cut(b, some_b, g2)
    ctx.check(ok, rule, prefix + ":unbounded-iff-i32-max", "None exactly when the range end is i32::MAX (`{m,}`)",
              "%s: the unbounded case of {m,n} is no longer tied to n == i32::MAX" % b.id, site=b.where(sites[0]))


IDENTITY_CALLS = ("to_string", "clone", "to_owned", "as_str", "as_ref", "borrow", "deref", "into", "from", "to_vec", "as_slice", "as_bytes")


def key_is_lossless(body, o, depth=10):
    """(ok, why): the operand is built from the function's parameters only through moves, borrows, tuple aggregates and
    value-preserving conversions (to_string/clone/...); any other call or arithmetic on the way makes the key a derived
    — possibly lossy — value"""
    if depth <= 0:
        return False, "provenance too deep"
    if "k" in o or "fn" in o or "closure" in o:
        return False, "constant"
    pl = F.op_place(o)
    if pl is None:
        return False, "unknown operand"
    l = pl[0]
    if 1 <= l <= body.argc:
        return True, ""
    ds = body.defs().get(l, [])
    if len(ds) != 1:
        return False, "local with %d definitions" % len(ds)
    bi, si, kind, payload = ds[0]
    if kind == "call":
        d = payload["f"].get("def", "?")
        last = d.rsplit("::", 1)[-1]
        if last in IDENTITY_CALLS and payload["args"]:
            return key_is_lossless(body, payload["args"][0], depth - 1)
        return False, "computed by %s" % d
    if kind != "assign":
        return False, "partial definition"
    r = payload
    if r["rv"] in ("use", "cast"):
        return key_is_lossless(body, r["o"], depth - 1)
    if r["rv"] in ("ref", "rawptr"):
        return key_is_lossless(body, {"c": r["p"]}, depth - 1)
    if r["rv"] == "agg" and r.get("kind") == "tuple":
        for x in r["ops"]:
            ok, why = key_is_lossless(body, x, depth - 1)
            if not ok:
                return ok, why
        return True, ""
    return False, "computed (%s)" % r["rv"]


def memo_keys_lossless(ctx, R):
    """Memoising functions (look-up and fill of the same map in one function, result returned on a hit): the key must be the
    argument(s) themselves.  A key that is a *derived* value (a display name, a truncation, a hash) makes two different
    arguments share one cached node.  Shared by C09-R4 and C06-R8."""
    P = ctx.prog
    n = 0
    for i, b in sorted(P.bodies.items()):
        if not P._is_code(b) or not i.startswith(("llguidance::grammar_builder::", "llguidance::json::compiler::", "llguidance::lark::compiler::")):
            continue
        sites = {}
        for bi, t in b.calls():
            d = t["f"].get("def", "")
            last = d.rsplit("::", 1)[-1]
            if not (("HashMap" in d or "IndexMap" in d or "hash::map" in d) and last in ("get", "insert", "contains_key", "get_mut") and len(t["args"]) >= 2):
                continue
            e0 = b.expr(t["args"][0])
            fs = F.place_fields(e0[1]) if e0[0] in ("ref", "place") else []
            key = fs[-1] if fs else ("param", L.root_local(b, e0))
            sites.setdefault(key, []).append((bi, last, t["args"][1]))
        for key, lst in sites.items():
            kinds = {x[1] for x in lst}
            # memoising = the cached *value* is fetched (`get`) and filled (`insert`) here; a registry that only tests
            # `contains_key` to reject duplicates is not a memo table
            if not ("insert" in kinds and kinds & {"get", "get_mut"}):
                continue
            n += 1
            bad = []
            for bi, last, o in lst:
                ok, why = key_is_lossless(b, o)
                if not ok:
                    bad.append("%s key at %s: %s" % (last, b.where(bi), why))
            nm = "%s.%s" % (i.rsplit("::", 1)[1], key[1] if isinstance(key[1], str) else "map-param")
            ctx.check(not bad, R, "memo-key-is-argument:" + nm, "look-up and fill use the function's own argument(s) as the key",
                      "%s memoises on a derived value (%s): two different arguments can share one cached result"
                      % (i, "; ".join(bad)), site=b.where())
    ctx.floor(R, "memoising functions (get + insert on one map)", n, 7)


def rep_count_rule(ctx, R, g_none):
    """R6: every node returned by simple_repeat / repeat_exact / at_most / at_least / repeat derives exactly the counts of
    its contract, assuming the contracts of the helpers it calls (rules/repcount.py: symbolic count sets over n, n / K,
    n % K).  This is the inductive step of the logarithmic factorisation; it is independent of how the pieces are named
    or ordered.  A body outside the algebra is not judged."""
    from .. import repcount as RC
    P = ctx.prog
    judged = 0
    table = (
        ("simple_repeat", {3: "n"}, lambda: (RC.lin(n=1), RC.lin(n=1)), "exactly n"),
        ("repeat_exact", {3: "n"}, lambda: (RC.lin(n=1), RC.lin(n=1)), "exactly n"),
        ("at_most", {3: "n"}, lambda: (RC.lin(0), RC.lin(n=1)), "0..=n"),
        ("at_least", {3: "n"}, lambda: (RC.lin(n=1), RC.INF), "n.."),
        ("repeat", {3: "min", ("opt", 4): "max"}, lambda: (RC.lin(min=1), RC.lin(max=1)), "min..=max"),
    )
    for fn, syms, spec, words in table:
        b = ctx.try_body(GB + "::" + fn, R)
        if b is None:
            continue
        I = RC.Interp(P, GB + "::" + fn, 2, syms)
        defs = I.result_defs()
        if not defs:
            ctx.info(R, "%s: no returned node found (not judged)" % fn)
            continue
        n_ok = 0
        for bi, e in defs:
            I.why = None
            cs = I.node(I.b, e)
            if cs is None:
                ctx.info(R, "%s: result at %s not interpretable (%s) — not judged" % (fn, b.where(bi), I.why))
                continue
            sub = I.path_subst(bi)
            K = I.K
            if K and getattr(I, "divsym", None):
                sy = I.divsym
                sub = dict(sub)
                if sy not in sub:
                    sub[sy] = RC.ladd(RC.lmulc(RC.lin(**{"q_" + sy: 1}), K), RC.lin(**{"r_" + sy: 1}))
            lo, hi = spec()
            verdict = RC.cs_equiv(cs, lo, hi, sub)
            if verdict is not True and fn == "repeat":
                # the unbounded arm: [min..inf) is the contract only where `max` is None
                v2 = RC.cs_equiv(cs, lo, RC.INF, sub)
                if v2 is True:
                    verdict = bool(g_none) and bi not in b.reachable(0, cut_edges=g_none)
            if verdict is None:
                ctx.info(R, "%s: count set %s at %s not comparable — not judged" % (fn, RC.cs_fmt(cs), b.where(bi)))
                continue
            n_ok += 1
            ctx.check(verdict, R, "count-set:%s#%d" % (fn, n_ok), "%s: the node built at this return derives %s = %s copies (given %s)" % (
                fn, RC.cs_fmt(cs), words, {str(k): RC.lfmt(v) for k, v in sub.items()} or "no path equalities"),
                      "GrammarBuilder::%s returns a node that derives the repetition counts %s, but its contract is %s%s: the factorisation "
                      "admits or loses repetition counts" % (fn, RC.cs_fmt(cs), words,
                                                             (" (with %s)" % ", ".join("%s = %s" % (k, RC.lfmt(v)) for k, v in sub.items())) if sub else ""),
                      site=b.where(bi))
        if n_ok:
            judged += 1
    ctx.floor(R, "repetition helpers judged by the count algebra", judged, 4)


def run(ctx):
    P = ctx.prog
    # ------------------------------------------------------------------ R1 operator tables
    dte = ctx.body(LC + "::do_token_expr")
    op_dispatch(ctx, dte, "C09-R1", "terminal", {"*": RB + "::zero_or_more", "+": RB + "::one_or_more", "?": RB + "::optional"})
    range_dispatch(ctx, dte, "C09-R1", "terminal", RB + "::repeat")
    de = ctx.body(LC + "::do_expr")
    op_dispatch(ctx, de, "C09-R1", "rule", {"*": GB + "::zero_or_more", "+": GB + "::one_or_more", "?": GB + "::optional"})
    range_dispatch(ctx, de, "C09-R1", "rule", GB + "::repeat")
    for fn, (mn, mx) in (("zero_or_more", (0, ("None",))), ("one_or_more", (1, ("None",))), ("optional", (0, ("Some", 1)))):
        b = ctx.body(RB + "::" + fn)
        sites = b.call_blocks(RB + "::repeat")
        ok = False
        got = None
        if sites:
            t = b.blocks[sites[0]]["term"]
            a2 = b.expr(t["args"][2])
            a3 = opt_of(b, b.expr(t["args"][3]))
            got = (const_int(a2), a3 if a3 is None or a3[0] == "None" else ("Some", const_int(a3[1])))
            ok = got == (mn, mx)
        ctx.check(ok, "C09-R1", "regex-helper:" + fn, "RegexBuilder::%s = repeat(node, %s, %s)" % (fn, mn, mx),
                  "RegexBuilder::%s calls repeat with %s (expected (%s, %s))" % (fn, got, mn, mx), site=b.where())
    rr = ctx.body(RB + "::repeat")
    rep = [x for x in L.struct_inits(P, "derivre::regexbuilder::RegexAst") if x[0].id == rr.id and x[3] == "Repeat"]
    ok = False
    if rep:
        b, bi, fm, _ = rep[0]
        ops = list(fm.values())
        e1, e2 = b.expr(ops[1]), b.expr(ops[2])
        ok = e1[0] in ("place", "local") and (e1[1] if e1[0] == "local" else e1[1][0]) == 3 and e2[0] == "call" and e2[1].endswith("Option::<T>::unwrap_or") \
            and e2[2][0][0] in ("place", "local") and (e2[2][0][1] if e2[2][0][0] == "local" else e2[2][0][1][0]) == 4 and e2[2][1][0] == "const" and (
                e2[2][1][1] == 4294967295 or "MAX" in str(e2[2][1][3]))
        if not ok and e1[0] in ("place", "local") and (e1[1] if e1[0] == "local" else e1[1][0]) == 3:
            # the same value spelled as `match max { Some(m) => m, None => u32::MAX }`: a local with exactly two definitions,
            # the Some payload of parameter 4 and the constant u32::MAX
            l2 = e2[1] if e2[0] == "local" else (e2[1][0] if e2[0] == "place" and len(e2[1]) == 1 else None)
            if isinstance(l2, int):
                kinds = set()
                for (_, _, k_, p_) in b.defs().get(l2, []):
                    if k_ == "assign" and p_["rv"] == "use":
                        ev = b.expr(p_["o"])
                        if ev[0] == "const" and ev[1] == 4294967295:
                            kinds.add("max")
                        elif ev[0] == "place" and ev[1][0] == 4 and any(isinstance(x, dict) and x.get("dc") == "Some" for x in ev[1][1:]):
                            kinds.add("some")
                        else:
                            kinds.add("other")
                    else:
                        kinds.add("other")
                ok = kinds == {"max", "some"}
    ctx.check(ok, "C09-R1", "regex-repeat:ast", "RegexAst::Repeat(node, min, max.unwrap_or(u32::MAX))",
              "RegexBuilder::repeat no longer builds Repeat(node, min, max.unwrap_or(u32::MAX))", site=rr.where())

    # ------------------------------------------------------------------ R2 rule shapes
    ELT = "param:2"
    WRAP = "call:new_wrapper_node"
    shapes = {"optional": [[], [ELT]], "one_or_more": [[ELT], [WRAP, ELT]], "zero_or_more": [[], [WRAP, ELT]]}
    for fn, want in shapes.items():
        b = ctx.body(GB + "::" + fn)
        nw = b.call_blocks(GB + "::new_wrapper_node")
        rules = []
        lhs_ok = True
        for bi, t in b.calls():
            if t["f"].get("def") == GB + "::add_rule":
                n = slice_len(b, t["args"][2])
                el = slice_elems(b, t["args"][2]) if n else []
                el = [WRAP if x.startswith(WRAP) else x for x in el] if el is not None else None
                rules.append(el if el is not None else ["?"] * (n or 0))
                lhs_ok = lhs_ok and L.role(b, t["args"][1]).startswith(WRAP)
        ctx.check(rules == want and bool(nw) and lhs_ok, "C09-R2", "rule-shape:" + fn,
                  "%s adds exactly the rules p -> %s with p the fresh wrapper node" % (fn, want),
                  "GrammarBuilder::%s adds rules %s (expected %s): the admitted repetition counts change" % (fn, rules, want), site=b.where())
    rp = ctx.body(GB + "::repeat")
    calls = {k: rp.call_blocks(GB + "::" + k) for k in ("at_least", "repeat_exact", "at_most", "join")}
    # `max` absent: `max.is_none()` is true, or the discriminant of parameter 4 is 0 (`let Some(max) = max else {..}`)
    g_none = L.guard_edges(rp, lambda e: e[0] == "call" and e[1].endswith("Option::<T>::is_none"), True)
    for bi, e, targets, otherwise in rp.switch_edges():
        if e[0] == "discr" and e[1][0] in ("place", "local") and (e[1][1] if e[1][0] == "local" else e[1][1][0]) == 4:
            zero = [t for v, t in targets if v == 0]
            if not zero and all(v != 0 for v, _ in targets):
                zero = [otherwise]
            g_none = list(g_none) + [(bi, t) for t in zero]
    ok = bool(calls["at_least"]) and bool(g_none) and not L.dominated_by_cut(rp, calls["at_least"], g_none)
    ctx.check(ok, "C09-R2", "repeat:none->at_least", "max == None dispatches to at_least(elt, min)", "repeat no longer maps an absent max to at_least", site=rp.where())
    if calls["at_least"]:
        t = rp.blocks[calls["at_least"][0]]["term"]
        ctx.check(L.role(rp, t["args"][2]) == "param:3", "C09-R2", "repeat:at_least-arg", "at_least(elt, min)", "at_least receives %s" % L.role(rp, t["args"][2]), site=rp.where())
    le = L.guard_edges(rp, lambda e: e[0] == "bin" and e[1] == "Le", True)
    work = calls["repeat_exact"] + calls["at_most"]
    ctx.check(bool(le) and bool(work) and not L.dominated_by_cut(rp, work, le), "C09-R2", "repeat:asserts-min-le-max", "repeat asserts min <= max before the bounded cases",
              "repeat no longer asserts min <= max", site=rp.where())
    g_eq = L.guard_edges(rp, lambda e: e[0] == "bin" and e[1] == "Eq" and e[3][0] != "const", True)
    g_zero = L.guard_edges(rp, lambda e: e[0] == "bin" and e[1] == "Eq" and e[3][0] == "const" and e[3][1] == 0, True)
    ex_eq = [bi for bi in calls["repeat_exact"] if g_eq and bi not in rp.reachable(0, cut_edges=g_eq)]
    am_zero = [bi for bi in calls["at_most"] if g_zero and bi not in rp.reachable(0, cut_edges=g_zero)]
    ctx.check(len(ex_eq) == 1 and len(am_zero) == 1, "C09-R2", "repeat:dispatch", "min == max -> repeat_exact, min == 0 -> at_most",
              "repeat's dispatch changed (repeat_exact under ==: %d, at_most under == 0: %d)" % (len(ex_eq), len(am_zero)), site=rp.where())
    gen_ex = [bi for bi in calls["repeat_exact"] if bi not in ex_eq]
    gen_am = [bi for bi in calls["at_most"] if bi not in am_zero]
    ok = len(gen_ex) == 1 and len(gen_am) == 1
    if ok:
        te, ta = rp.blocks[gen_ex[0]]["term"], rp.blocks[gen_am[0]]["term"]
        # min is parameter 3, max is parameter 4 (unwrapped)
        rd = L.role(rp, ta["args"][2])
        rdn = rd.replace(" ", "").replace(").0", ")").replace("param:4asSome.0", "call:unwrap(param:4)")
        ok = L.role(rp, te["args"][2]) == "param:3" and rdn == "(call:unwrap(param:4)Subparam:3)"
    ctx.check(ok, "C09-R2", "repeat:general-case", "general case = repeat_exact(elt, min) ++ at_most(elt, max - min)",
              "repeat's general case no longer combines repeat_exact(min) with at_most(max - min)", site=rp.where())
    al = ctx.body(GB + "::at_least")
    zs, ex, jn = al.call_blocks(GB + "::zero_or_more"), al.call_blocks(GB + "::repeat_exact"), al.call_blocks(GB + "::join")
    ok = len(zs) == 1 and len(ex) == 1 and len(jn) == 1
    if ok:
        el = slice_elems(al, al.blocks[jn[0]]["term"]["args"][1]) or []
        ok = len(el) == 2 and el[0].startswith("call:repeat_exact(") and el[1].startswith("call:zero_or_more(") and L.role(al, al.blocks[ex[0]]["term"]["args"][2]) == "param:3"
    ctx.check(ok, "C09-R2", "at_least:shape", "at_least(elt, n) = join[repeat_exact(elt, n), zero_or_more(elt)]",
              "at_least no longer is repeat_exact(n) followed by zero_or_more", site=al.where())

    # ------------------------------------------------------------------ R7 size bounds survive schema intersection (adopted from C08-R1)
    # allOf / $ref siblings / enum merge two schemas: the upper size bound is opt_min (None = unbounded), the lower one max
    ctx.import_clauses("c08", "C08-R1", ["intersect:StringSchema.", "intersect:ArraySchema.", "intersect:ObjectSchema."], "C09-R7")

    # ------------------------------------------------------------------ R6 repetition-count algebra (inductive step of the factorisation)
    rep_count_rule(ctx, "C09-R6", g_none)

    # ------------------------------------------------------------------ R5 "at least one" sequence helper needs a non-zero budget
    # (shared with C06-R6: bounded_sequence(item, min, max) cannot express zero members)
    from . import c06 as _c06
    _c06.bounded_sequence_guard(ctx, "C09-R5")

    # ------------------------------------------------------------------ R4 memo caches are private to their function
    # at_most / repeat_exact / string memoise on (element, count): a result stored in the sibling's cache would be
    # returned for a different repetition (x{0,k} stored where x{k} is looked up)
    for fld, owner in (("at_most_cache", "at_most"), ("repeat_exact_cache", "repeat_exact"), ("strings", "string")):
        ins, rd = set(), set()
        for i, b in P.bodies.items():
            if not P._is_code(b):
                continue
            w, m, r = P.own_effects(b)
            for (f, callee) in m:
                if f == (GB, fld):
                    k = callee.rsplit("::", 1)[-1]
                    if k in ("insert", "entry", "extend", "get_mut", "push"):
                        ins.add(i)
                    elif k not in ("clear",):
                        rd.add(i)
            for bi, t in b.calls():
                if t["f"].get("def", "").endswith("::get") or t["f"].get("def", "").endswith("::contains_key"):
                    e = b.expr(t["args"][0])
                    if e[0] in ("ref", "place") and F.place_fields(e[1])[-1:] == [(GB, fld)]:
                        rd.add(i)
        want = {GB + "::" + owner}
        ctx.check(ins == want and rd == want, "C09-R4", "memo-private:" + fld, "%s is read and filled only by %s" % (fld, owner),
                  "memo cache GrammarBuilder.%s is filled by %s and read by %s (expected only %s): a repetition node can be returned for "
                  "a different count range" % (fld, sorted(x.rsplit("::", 1)[1] for x in ins), sorted(x.rsplit("::", 1)[1] for x in rd), owner))

    memo_keys_lossless(ctx, "C09-R4")

    # ------------------------------------------------------------------ R3 JSON length bounds
    gs = ctx.body(JC + "::gen_json_string")
    tmpls = []
    for bi, si, st in gs.statements():
        if st["s"] == "assign" and st["r"]["rv"] == "use" and str(st["r"]["o"].get("ty", "")).startswith("&[u8;") and "(?s:." in str(st["r"]["o"].get("k", "")):
            tmpls.append((bi, st["r"]["o"]["k"]))
    ctx.floor("C09-R3", "length-regex format sites in gen_json_string", len(tmpls), 2)
    for n_, tmpl in enumerate(tmpls):
        k = tmpl[1]
        # rustc's packed format template: literal pieces with \xc0 placeholders: "(?s:.{" ARG "," ARG "})"
        ok = re.search(r"\(\?s:\.\{\\xc0.{0,6},\\xc0.{0,6}\}\)", k) is not None
        ctx.check(ok, "C09-R3", "string-length:template#%d" % n_, "the length regex template is (?s:.{MIN,MAX})",
                  "gen_json_string's length regex template changed: %s" % k, site=gs.where(tmpl[0]))
        arr = None
        for si, st in enumerate(gs.blocks[tmpl[0]]["st"]):
            if st["s"] == "assign" and st["r"]["rv"] == "agg" and st["r"]["kind"] == "array":
                arr = st["r"]["ops"]
        names = []
        if arr:
            for o in arr:
                # provenance by role (schema field the value is read from), whatever the locals are called
                r = L.role(gs, o, depth=14)
                hits = [f for f in ("min_length", "max_length") if ("." + f) in r]
                names.append(hits[0] if len(hits) == 1 else "?(%s)" % r[:60])
        ctx.check(names == ["min_length", "max_length"], "C09-R3", "string-length:argument-order#%d" % n_, "filled with (min_length, max_length)",
                  "the length regex is filled with %s: minLength and maxLength are swapped or replaced" % names, site=gs.where(tmpl[0]))
    ga = ctx.body(JC + "::gen_json_array")
    r = P.own_effects(ga)[2]
    ok = ("llguidance::json::schema::ArraySchema", "min_items") in r and ("llguidance::json::schema::ArraySchema", "max_items") in r
    AS = "llguidance::json::schema::ArraySchema"
    ctx.check(ok, "C09-R3", "array:min/max-sources", "minItems / maxItems are read from ArraySchema.min_items / max_items",
              "gen_json_array no longer reads min_items/max_items of the array schema", site=ga.where())
    # required vs optional split at i < min_items (the symbolic chase sees through `let min_items = arr.min_items`):
    # one vector is pushed to only on the true edge, a different one only on the false edge
    lt = lambda e: e[0] == "bin" and e[1] == "Lt" and L.is_field_read(AS, "min_items")(L.strip_wrappers(e[3]))
    g_t = L.guard_edges(ga, lt, True)
    g_f = L.guard_edges(ga, lt, False)
    heads = {t for (_, t) in g_t} | {t for (_, t) in g_f}
    pushes = [(bi, L.root_local(ga, ga.expr(t["args"][0]))) for bi, t in ga.calls() if t["f"].get("def", "").endswith("Vec::<T, A>::push")]
    under_t = {l for bi, l in pushes if l is not None and g_t and not L.dominated_by_cut(ga, [bi], g_t)}
    under_f = {l for bi, l in pushes if l is not None and g_f and not L.dominated_by_cut(ga, [bi], g_f)}
    ctx.check(bool(g_t) and bool(under_t) and bool(under_f) and not (under_t & under_f), "C09-R3", "array:required-iff-below-minItems",
              "an item goes to the required vector exactly when its index is < min_items, otherwise to a different (optional) vector",
              "gen_json_array's required/optional split is no longer `i < min_items`", site=ga.where())
    # number of explicit item slots: when maxItems is present it is exactly maxItems (a tuple prefix longer than maxItems is cut
    # off), otherwise max(prefixItems.len(), minItems).  Accepted forms: `max_items.map_or(<default>, |m| m)` or a match on
    # max_items whose Some arm yields the payload; anything else (e.g. prefix.len().max(..maxItems..)) lets the prefix win.
    slots_ok, slots_desc = False, "no 0..N item loop found"
    for bi, si, st in ga.statements():
        r = st.get("r", {})
        if st["s"] == "assign" and r.get("rv") == "agg" and isinstance(r.get("kind"), dict) and r["kind"].get("adt", "").endswith("range::Range") and len(r["ops"]) == 2 \
                and F.op_const_int(r["ops"][0]) == 0:
            e = ga.expr(r["ops"][1])
            slots_desc = L.role(ga, r["ops"][1], depth=12)
            if e[0] == "call" and e[1].endswith("Option::<T>::map_or") and len(e[2]) == 3:
                src = L.root_local(ga, e[2][0]) if e[2][0][0] != "local" else e[2][0][1]
                from_max = src is not None and any(
                    F.op_place(p_["o"]) and F.place_fields(F.op_place(p_["o"]))[-1:] == [(AS, "max_items")]
                    for (_, _, k_, p_) in ga.defs().get(src, []) if k_ == "assign" and p_["rv"] == "use")
                ident = False
                for c in L._closures_in(e[2][2]):
                    cb_ = P.any_body(c)
                    ds_ = cb_.defs().get(0, []) if cb_ is not None else []
                    ident = len(ds_) == 1 and ds_[0][2] == "assign" and ds_[0][3]["rv"] == "use" and F.op_place(ds_[0][3]["o"]) == [2]
                dflt = L.role(ga, ga.blocks[e[3]]["term"]["args"][1], depth=10) if len(e) > 3 else ""
                slots_ok = from_max and ident and "max(" in dflt and ".prefix_items" in dflt and ".min_items" in dflt
            else:
                # match form: the bound is a local assigned in both arms of a switch on discr(max_items)
                l_ = F.op_place(r["ops"][1])
                ds_ = ga.defs().get(l_[0], []) if l_ else []
                pay = [d for d in ds_ if d[2] == "assign" and d[3]["rv"] == "use" and F.op_place(d[3]["o"]) and any(
                    isinstance(x, dict) and x.get("dc") == "Some" for x in F.op_place(d[3]["o"])[1:])]
                slots_ok = len(ds_) == 2 and len(pay) == 1
    ctx.check(slots_ok, "C09-R3", "array:slots-capped-by-maxItems", "item slots = maxItems when present, else max(prefixItems.len(), minItems)",
              "gen_json_array computes the number of item slots as `%s`: with prefixItems longer than maxItems the array admits more than "
              "maxItems items" % slots_desc, site=ga.where())
    go = ctx.body(JC + "::gen_json_object")
    bs = go.call_blocks(JC + "::bounded_sequence")
    ok = False
    if bs:
        t = go.blocks[bs[0]]["term"]
        r2, r3 = L.role(go, t["args"][2]), L.role(go, t["args"][3])
        ok = "min_properties" in r2 and "saturating_sub" in r2 and "max_properties" in r3 and "min_properties" not in r3
    ctx.check(ok, "C09-R3", "object:bounded_sequence-args", "bounded_sequence(pattern, min_properties, max_properties)",
              "gen_json_object passes its property-count bounds to bounded_sequence in a different order", site=go.where())
