"""C20 — arbitrary input never crashes, corrupts or hangs the engine (structural clauses)."""
import collections

from .. import facts as F
from .. import lib as L

NS = "llguidance::earley::parser::"
PS = NS + "ParserState"
SCR = NS + "Scratch"
TP = "llguidance::tokenparser::TokenParser"
CU = "llguidance::panic_utils::catch_unwind"
LP = "llguidance::lark::parser::Parser"
JS = "llguidance::json::schema::"
NUM = "llguidance::json::numeric::"

META = dict(
    explanation=(
        "Static analysis over the whole-workspace call graph and MIR. Decided clauses: R1 every cyclic "
        "strongly-connected component of the call graph (class-hierarchy + closure edges) is either cut by "
        "depth-guard functions — detected by idiom: a counter field or a depth parameter compared against a "
        "limit with an error exit that dominates every recursive call — together with the frozen list of "
        "descent edges that consume one level of already-bounded input nesting, or is in the frozen "
        "bounded-by-shape table with its reason; anything else is unguarded input-driven recursion and is "
        "reported with its cycle; R1b the visited markers that terminate recursion over cyclic inputs are "
        "set before descending; R2 census of possibly-overflowing integer operations on user numbers in "
        "json/numeric.rs (per function and operation kind); R3 loops whose trip count is a user number "
        "(minItems/maxItems, minLength/maxLength, repetition counts) contain a resource-limit check; R4 "
        "engine construction and every engine call of the sampling-loop/matcher interfaces run under "
        "catch_unwind; R5 failure is sticky (parser_error and the lexer error state are only ever set); R6 "
        "token ids are range-checked before trie indexing on the validate and commit paths."
    ),
    not_decided=(
        "termination / complexity of the lexer and Earley loops under fuel (external fuel accounting); "
        "memory bounds; panics from slice indexing / unwrap inside the contained regions (they are "
        "contained, not excluded)"
    ),
)
META["explanation"] += (
    " Added after the independent seeding rounds 2-3: " 'R7 the per-step item budget bounds the forced-byte loop: advance_parser refuses in every mode once all_items > max_all_items, and force_bytes runs under with_items_limit. R8 speculation never pops lexer states below its base (handle_hidden_bytes is a known finding). R9 additions on budget values (max_tokens_total, max_all_items, ParserLimits fields and parameters filled from them) are saturating/checked.'
)

# edges that consume one level of *already bounded* input nesting (serde_json parses at most 128 levels;
# the Lark parser enforces MAX_NESTING); removed before the acyclicity test
DESCENT_EDGES = {
    # JSON schema: a sub-schema is syntactically nested inside its parent (bounded by serde_json's recursion limit)
    (JS + "Schema::apply", JS + "compile_resource"): "allOf/anyOf/oneOf members are nested JSON",
    (JS + "Schema::apply::{closure#3}", JS + "compile_resource"): "applicator array element",
    (JS + "Schema::apply::{closure#5}", JS + "compile_resource"): "applicator array element",
    (JS + "compile_array", JS + "compile_resource"): "items / additionalItems are nested JSON",
    (JS + "compile_array::{closure#1}", JS + "compile_resource"): "prefixItems element",
    (JS + "compile_object", JS + "compile_resource"): "additionalProperties is nested JSON",
    (JS + "compile_prop_map::{closure#1}", JS + "compile_resource"): "property value is nested JSON",
}
# SCCs bounded by the shape of their input, keyed by one member; reason in one line
BOUNDED = {
    NUM + "rx_int_range": "recursion on a strictly shorter decimal prefix of an i64 (<= 19 digits)",
    NUM + "rx_float_range": "<= 2 levels (sign split), then rx_int_range",
    NUM + "lexi_x_to_9": "one level per decimal digit of an f64 literal",
    NUM + "lexi_0_to_x": "one level per decimal digit",
    NUM + "lexi_range": "one level per decimal digit",
    NUM + "gcd": "Euclid on u64: <= ~93 levels",
    "llguidance::grammar_builder::GrammarBuilder::at_most": "halving recursion: log2(n) levels",
    "llguidance::grammar_builder::GrammarBuilder::repeat_exact": "halving recursion: log2(n) levels",
    "llguidance::earley::grammar::ParametricNullableCtx::and_list": "halving recursion over a list",
    PS + "::advance_parser": "advance_parser <-> handle_hidden_bytes: depth <= 2 (asserted: second lexeme has byte_next_row == false)",
    "toktrie::toktree::TrieBuilder::serialize_node": "depth = token length <= 2^PARENT_BITS",
    "toktrie::toktree::TokTrie::validate_node": "depth = token length <= 2^PARENT_BITS",
    "toktrie::toktree::TokTrie::add_bias": "depth 1: the recursive call passes an empty start",
    "llguidance::matcher::Matcher::new": "depth 1: recurses only with an Err",
    "llguidance::earley::slicer::TokenizerSlice::from_topo_node": "depth <= number of slice regexes (configuration)",
    "llguidance::earley::slicer::TokenizerSlice::apply": "depth <= number of slice regexes (configuration)",
    "llguidance::earley::slicer::topological_sort::build_tree": "depth <= number of slice regexes (configuration)",
    "llguidance::lark::compiler::Compiler::execute": "nested %lark grammars: bounded by the Lark parser's MAX_NESTING",
    "llguidance::json::compiler::Compiler::gen_json": "depth of a compiled Schema (<= JSON nesting 128 + max_stack_level intersections); references are broken by the pending-definitions list",
    JS + "compile_const": "depth of a serde_json::Value (<= 128)",
    JS + "Schema::is_verifiably_disjoint_from": "depth of a compiled Schema",
    "llguidance::json::json_merge": "depth of a serde_json::Value (<= 128)",
    "llguidance::json::compiler::always_non_empty": "depth of a RegexAst built from bounded input",
    "llguidance::earley::grammar::ParamCond::eval": "depth of a parsed %if condition (<= MAX_NESTING, guarded in the Lark parser)",
    "llguidance::earley::grammar::ParametricNullableCtx::dnf": "depth of a parsed %if condition (<= MAX_NESTING)",
    "toktrie_hf_tokenizers::ByteTokenizer::from_tokenizer::fix_metaspace": "depth of tokenizer.json (serde_json <= 128)",
    "toktrie_hf_tokenizers::ByteTokenizer::from_tokenizer::remove_prepend_normalizer": "depth of tokenizer.json",
    "toktrie_hf_tokenizers::ByteTokenizer::from_tokenizer::check_decoder": "depth of tokenizer.json",
    "<toktrie::recognizer::StackRecognizer<S, R> as core::clone::Clone>::clone": "call-graph artefact of the derived Clone (field clone resolved to the same generic impl)",
    "<toktrie::tokenv::TokEnvWithTrie as toktrie::tokenv::TokenizerEnv>::tokenize_bytes": "call-graph artefact: dyn dispatch to the wrapped environment",
}
OVF_CENSUS = {
    # function (suffix after json::numeric::) -> {op: max count}; strict for wrap-prone ops
    "<llguidance::json::numeric::Decimal as core::convert::TryFrom<f64>>::try_from": ({"Overflow(Add)": 1}, "exp += 1, at most ~1100 times (f64 fraction digits)"),
    NUM + "Decimal::integer_step": ({"Overflow(Sub)": 2}, "counters decremented under `> 0`"),
    NUM + "Decimal::new": ({"Overflow(Sub)": 1}, "exp -= 1 under exp > 0"),
    NUM + "lexi_0_to_x": ({"Overflow(Sub)": 2}, "digit/string index arithmetic"),
    NUM + "lexi_range": ({"Overflow(Add)": 2, "Overflow(Sub)": 1}, "digit/string index arithmetic"),
    NUM + "lexi_x_to_9": ({"Overflow(Add)": 2}, "digit/string index arithmetic"),
    NUM + "rx_float_range": ({"Overflow(Add)": 1, "Overflow(Sub)": 1}, "±1 on digit positions"),
    NUM + "rx_int_range": ({"OverflowNeg": 4, "Overflow(Sub)": 6, "Overflow(Add)": 2},
                           "±1 / negation of i64 bounds; only i64::MIN overflows and then ends in a reported error (contained panic in debug, "
                           "'Failed to generate regex' after the wrap in release) — never a silently wrong regex"),
    NUM + "num_digits": ({"call:abs": 1}, "abs of an i64 bound (same i64::MIN remark)"),
}
USER_COUNT_FIELDS = {
    ("llguidance::json::schema::ArraySchema", "min_items"), ("llguidance::json::schema::ArraySchema", "max_items"),
    ("llguidance::json::schema::StringSchema", "min_length"), ("llguidance::json::schema::StringSchema", "max_length"),
}
LIMIT_CHECKS = ("check_limits", "increment")


# --------------------------------------------------------------------------------------------- helpers
def scc_of(members, cg, drop_nodes=(), drop_edges=()):
    """cyclic sub-components of the graph induced on members"""
    members = [m for m in members if m not in drop_nodes]
    S = set(members)
    adj = {u: [v for v in cg.get(u, ()) if v in S and (u, v) not in drop_edges] for u in members}
    index, low, on, st, out = {}, {}, set(), [], []
    c = [0]

    def strong(v):
        work = [(v, iter(adj[v]))]
        index[v] = low[v] = c[0]
        c[0] += 1
        st.append(v)
        on.add(v)
        while work:
            u, it = work[-1]
            adv = False
            for w in it:
                if w not in index:
                    index[w] = low[w] = c[0]
                    c[0] += 1
                    st.append(w)
                    on.add(w)
                    work.append((w, iter(adj[w])))
                    adv = True
                    break
                elif w in on:
                    low[u] = min(low[u], index[w])
            if adv:
                continue
            work.pop()
            if work:
                low[work[-1][0]] = min(low[work[-1][0]], low[u])
            if low[u] == index[u]:
                comp = []
                while True:
                    w = st.pop()
                    on.discard(w)
                    comp.append(w)
                    if w == u:
                        break
                if len(comp) > 1 or u in adj[u]:
                    out.append(sorted(comp))

    for v in members:
        if v not in index:
            strong(v)
    return out


def shortest_cycle(comp, cg, drop_edges=()):
    S = set(comp)
    best = None
    for s in comp:
        prev = {s: None}
        dq = collections.deque([s])
        found = None
        while dq and found is None:
            u = dq.popleft()
            for v in sorted(cg.get(u, ())):
                if v not in S or (u, v) in drop_edges:
                    continue
                if v == s:
                    found = u
                    break
                if v not in prev:
                    prev[v] = u
                    dq.append(v)
        if found is not None:
            path = [s]
            u = found
            rev = []
            while u is not None:
                rev.append(u)
                u = prev[u]
            path = list(reversed(rev)) + [s]
            if best is None or len(path) < len(best):
                best = path
    return best or comp


def _incremented_in(P, members, f):
    """some member of the component passes / stores `<field f> + 1` (the nested instance carries depth+1)"""
    for mname in members:
        mb = P.bodies.get(mname)
        if mb is None:
            continue
        for bi, t in mb.calls():
            for a in t["args"]:
                e = mb.expr(a)
                if e[0] == "bin" and e[1] == "Add" and e[3][0] == "const" and e[3][1] == 1 and e[2][0] in ("place", "ref") and F.place_fields(e[2][1])[-1:] == [f]:
                    return True
    return False


def is_depth_guard(P, b, members):
    """(kind, detail) if b is a recursion depth guard for the component `members`:
    counter idiom  — a struct field is compared with a limit (error exit), and written (inc/dec) in b;
    parameter idiom — an integer parameter is compared with a limit (error exit) and b's recursive
                      calls into the component are dominated by the passing edge."""
    rec_sites = b.call_blocks(lambda d: d in members)
    # closures created here that belong to the component count as recursive sites too
    # (a closure that is demonstrably invoked at a resolved call site of b — e.g. handed to a spliced `with_depth(|s| ..)`
    # helper — recurses where it is called, not where it is created)
    called_here = {t["f"].get("def") for _, t in b.calls()}
    for bi, s in P.block_calls(b).items():
        if any(x in members and x != b.id and x not in called_here for x in s) and bi not in rec_sites:
            rec_sites.append(bi)
    if not rec_sites:
        return None
    w, m, r = P.own_effects(b)
    for bi, e, targets, otherwise in b.switch_edges():
        cur, pol = F.peel_polarity(e)
        if cur[0] != "bin" or cur[1] not in ("Lt", "Le", "Gt", "Ge"):
            continue

        def field_of(x):
            x = L.strip_wrappers(x)
            if x[0] == "bin":
                return field_of(x[2]) or field_of(x[3])
            if x[0] in ("place", "ref"):
                fs = F.place_fields(x[1])
                return fs[-1] if fs else None
            return None

        def param_of(x):
            x = L.strip_wrappers(x)
            if x[0] == "bin":
                return param_of(x[2]) or param_of(x[3])
            if x[0] in ("place", "local"):
                l = x[1] if x[0] == "local" else x[1][0]
                if 1 <= l <= b.argc and b.local_ty(l) in ("usize", "u32", "u64", "i32"):
                    return l
            return None

        tt, ft = F.bool_targets(targets, otherwise)
        for side in (cur[2], cur[3]):
            f = field_of(side)
            p = param_of(side)
            for pass_targets in (tt, ft):
                edges = [(bi, t) for t in pass_targets]
                still = L.dominated_by_cut(b, rec_sites, edges)
                if still:
                    continue
                # the other arm must exit with an error without recursing
                other = ft if pass_targets is tt else tt
                reach = set()
                for t in other:
                    reach |= b.reachable(t)
                if reach & set(rec_sites):
                    continue
                if f is not None and (f in w or _incremented_in(P, members, f)):
                    return ("counter", "%s.%s" % (f[0].rsplit("::", 1)[1], f[1]))
                if p is not None:
                    return ("parameter", b.local_name(p))
    return None


def run(ctx):
    P = ctx.prog
    cg = P.callgraph()
    # ------------------------------------------------------------------ R1 recursion guards
    sccs = P.sccs()
    ctx.floor("C20-R1", "cyclic SCCs of the call graph", len(sccs), 30 if ctx.config == "default" else 24)
    n_guarded = 0
    for comp in sorted(sccs, key=lambda c: c[0]):
        members = set(comp)
        key_member = None
        for mname in comp:
            if mname in BOUNDED:
                key_member = mname
        if key_member is not None:
            ctx.ok("C20-R1", "bounded-by-shape:" + key_member, "%d-function SCC: %s" % (len(comp), BOUNDED[key_member]))
            continue
        guards = {}
        for mname in comp:
            b = P.bodies.get(mname)
            if b is None:
                continue
            g = is_depth_guard(P, b, members)
            if g:
                guards[mname] = g
        rest = scc_of(comp, cg, drop_nodes=set(guards), drop_edges=set(DESCENT_EDGES))
        if not rest:
            n_guarded += 1
            ctx.ok("C20-R1", "guarded:" + comp[0], "%d-function SCC cut by depth guards %s%s" % (
                len(comp), {k.rsplit("::", 1)[1]: v for k, v in guards.items()},
                " and %d descent edges (bounded input nesting)" % sum(1 for e in DESCENT_EDGES if e[0] in members) if any(e[0] in members for e in DESCENT_EDGES) else ""))
            continue
        for sub in rest:
            cyc = shortest_cycle(sub, cg, drop_edges=set(DESCENT_EDGES))
            prim = sorted(x for x in sub if "{closure" not in x)[0] if any("{closure" not in x for x in sub) else sub[0]
            ctx.violation("C20-R1", "unguarded-recursion:" + prim,
                          "input-driven recursion without a depth guard: after removing the depth-guard functions %s and the bounded "
                          "descent edges, the cycle %s remains — a long enough chain in the input overflows the stack (process abort)"
                          % (sorted(k.rsplit("::", 1)[1] for k in guards), " -> ".join(x.replace("llguidance::", "") for x in cyc)),
                          site=P.bodies[prim].where() if prim in P.bodies else None, path=cyc)
    ctx.floor("C20-R1", "SCCs cut by detected depth guards", n_guarded, 2)
    # the two guard idioms must still be recognised where we know them (guards against detector drift)
    for fn, kind in ((LP + "::parse_expansions", "counter"), (LP + "::parse_param_cond", "counter"), (LP + "::parse_template_values", "counter"),
                     (JS + "Schema::intersect", "parameter")):
        b = ctx.body(fn)
        comp = next((c for c in sccs if fn in c), None)
        g = is_depth_guard(P, b, set(comp)) if comp else None
        ctx.check(g is not None and g[0] == kind, "C20-R1", "depth-guard:" + fn.rsplit("::", 1)[1],
                  "recognised as %s-idiom depth guard (%s)" % (kind, g[1] if g else ""),
                  "%s is no longer a depth guard (limit comparison with error exit dominating the recursive calls): nesting depth is "
                  "unbounded" % fn, site=b.where())
    # descent edges must still exist (stale table entries are reported)
    for (u, v), why in DESCENT_EDGES.items():
        ctx.check(v in cg.get(u, ()), "C20-R1", "descent-edge:%s" % u.rsplit("schema::", 1)[-1], why,
                  "descent edge %s -> %s no longer exists: the recursion table is stale" % (u, v))

    # ------------------------------------------------------------------ R1b cycle breakers precede the recursion
    dr = ctx.body(JS + "define_ref")
    rec = dr.call_blocks(JS + "compile_resource")
    mark = dr.call_blocks(lambda d: d.endswith("::mark_seen"))
    g = L.guard_edges(dr, lambda e: e[0] == "call" and e[1].endswith("::been_seen"), False)
    ok = bool(rec) and bool(mark) and bool(g) and not L.dominated_by_cut(dr, rec, g) and all(r not in dr.reachable(0, cut_blocks=mark) for r in rec)
    ctx.check(ok, "C20-R1b", "define_ref:mark-before-descend", "mark_seen dominates compile_resource, under !been_seen",
              "define_ref no longer marks a reference as seen before compiling it: a reference cycle recurses forever", site=dr.where())
    LC = "llguidance::lark::compiler::Compiler"
    for fn, callee in ((LC + "::do_rule_core", None), (LC + "::do_token", None)):
        b = P.bodies.get(fn)
        if b is None:
            ctx.violation("C20-R1b", "anchor-missing:" + fn, "%s not found" % fn)
            continue
        w, m, r = P.own_effects(b)
        ins = [bi for bi, (w_, m_, r_) in P.block_effects(b).items() if any(x[0][1] == "in_progress" and x[1].endswith("::insert") for x in m_)]
        comp = next((c for c in sccs if fn in c), [fn])
        recs = b.call_blocks(lambda d: d in set(comp))
        for bi, s in P.block_calls(b).items():
            if any(x in set(comp) and x != fn for x in s) and bi not in recs:
                recs.append(bi)
        ok = bool(ins) and bool(recs) and all(r_ not in b.reachable(0, cut_blocks=ins) for r_ in recs)
        ctx.check(ok, "C20-R1b", fn.rsplit("::", 1)[1] + ":in_progress-before-descend", "in_progress.insert dominates the recursive descent",
                  "%s descends into its definition before registering it as in progress: a self-referential rule recurses forever" % fn, site=b.where())

    # pointer-chasing loops terminate only if the structure they walk is acyclic: the union-find forest of the
    # grammar optimiser (walked by `while let Some(q) = map[root]` in uf_find) stays acyclic because uf_union links a
    # root only to a *different* root
    GR = "llguidance::earley::grammar::"
    uu = ctx.body(GR + "uf_union")
    finds = uu.call_blocks(GR + "uf_find")
    link = [bi for bi, t in uu.calls() if t["f"].get("def", "").endswith("Option::<T>::replace")]
    link += [bi for bi, si, st in uu.statements() if st["s"] == "assign" and len(st["p"]) > 1 and any(isinstance(x, dict) and "i" in x for x in st["p"][1:])]
    g = L.guard_edges_multi(uu, [(lambda e: e[0] == "call" and e[1].endswith("::ne"), True), (lambda e: e[0] == "bin" and e[1] == "Ne", True),
                                 (lambda e: e[0] == "call" and e[1].endswith("::eq"), False), (lambda e: e[0] == "bin" and e[1] == "Eq", False)])
    ok = len(finds) >= 2 and bool(link) and bool(g) and not L.dominated_by_cut(uu, link, g) and all(l not in uu.reachable(0, cut_blocks=[f]) for l in link for f in finds)
    ctx.check(ok, "C20-R1b", "uf_union:links-distinct-roots",
              "uf_union looks up both roots and links them only if they differ (the forest walked by uf_find stays acyclic)",
              "uf_union can link a root to itself (or links before finding both roots): uf_find's `while let Some(q) = map[root]` then never "
              "terminates — a grammar with a cycle of unit rules (a: b, b: a) hangs compilation", site=uu.where())

    overflow_census(ctx, "C20-R2")

    # ------------------------------------------------------------------ R3 user-count loops
    r3(ctx)

    # ------------------------------------------------------------------ R4 panic containment at API boundaries
    fi = ctx.body(TP + "::from_init")
    ctx.check(bool(fi.call_blocks(CU)), "C20-R4", "from_init:contained", "TokenParser::from_init runs init_inner under catch_unwind",
              "TokenParser::from_init no longer contains panics of grammar compilation", site=fi.where())
    cl = [P.bodies[c] for c in P.closures_of(fi.id)]
    ctx.check(any(c.call_blocks(TP + "::init_inner") for c in cl), "C20-R4", "from_init:init_inner-inside", "init_inner is called inside the guarded closure",
              "init_inner is called outside the catch_unwind closure", site=fi.where())
    callers = set(P.callers_of(TP + "::init_inner"))
    ctx.check(callers <= {c.id for c in cl}, "C20-R4", "init_inner:only-via-from_init", "init_inner has no unguarded caller",
              "init_inner is called from %s" % sorted(callers - {c.id for c in cl}))
    for fn in ("llguidance::constraint::Constraint::compute_mask", "llguidance::constraint::Constraint::commit_token"):
        b = ctx.body(fn)
        ctx.check(bool(b.call_blocks("llguidance::constraint::Constraint::catch_unwind")), "C20-R4", "constraint:" + fn.rsplit("::", 1)[1],
                  "runs under Constraint::catch_unwind", "%s is no longer panic-contained" % fn, site=b.where())
    cb = ctx.body("llguidance::constraint::Constraint::catch_unwind")
    ctx.check(bool(cb.call_blocks(CU)), "C20-R4", "constraint:catch_unwind-definition", "Constraint::catch_unwind delegates to panic_utils::catch_unwind",
              "Constraint::catch_unwind no longer catches panics", site=cb.where())
    pu = ctx.body(CU)
    ctx.check(bool(pu.call_blocks(lambda d: d.endswith("std::panic::catch_unwind") or d.endswith("panic::catch_unwind"))), "C20-R4", "panic_utils:catch_unwind",
              "panic_utils::catch_unwind calls std::panic::catch_unwind", "panic_utils::catch_unwind no longer catches panics", site=pu.where())
    # error excerpts of user JSON are cut at a char boundary (a byte-index slice of a user string panics inside a character)
    ls = ctx.body(JS + "limited_str")
    idx = [bi for bi, t in ls.calls() if "Index<" in t["f"].get("full", "") and "Range" in t["f"].get("full", "")]
    g = L.guard_edges(ls, lambda e: e[0] == "call" and e[1].endswith("::is_char_boundary"), True)
    ctx.check(bool(idx) and bool(g) and not L.dominated_by_cut(ls, idx, g), "C20-R4", "str-slice:llguidance::json::schema::limited_str",
              "the truncation index of limited_str is established by is_char_boundary()",
              "limited_str slices a user-controlled string at a byte index that is not checked with is_char_boundary(): a long non-ASCII "
              "schema value panics while an error message is being built", site=ls.where())
    # Rust-API entry points that are not wrapped (information)
    gv = P.bodies.get("llguidance::earley::from_guidance::<impl llguidance::api::GrammarInit>::validate")
    ctx.info("C20-R4", "GrammarInit::validate is a Rust-API entry point that compiles grammars without catch_unwind (panics propagate to the Rust caller)")

    # ------------------------------------------------------------------ R5 sticky failure
    for b, bi, r in L.assignments_to(P, PS, "parser_error"):
        e = b.expr_rvalue(r)
        ok = (e[0] == "agg" and isinstance(e[1], dict) and e[1].get("variant") == "Some") or b.id == PS + "::new"
        ctx.check(ok, "C20-R5", "parser_error:only-set@" + b.id.rsplit("::", 1)[1], "parser_error is only ever set to Some(..)",
                  "%s clears ParserState.parser_error: a failed engine stops reporting its failure" % b.id, site=b.where(bi))
    RV = "llguidance::earley::regexvec::RegexVec"
    for fn in (RV + "::set_fuel", RV + "::set_max_states"):
        b = ctx.body(fn)
        g = L.guard_edges(b, L.is_call_to(RV + "::has_error"), False)
        wr = [bi for bi, (w, m, r) in P.block_effects(b).items() if w]
        still = L.dominated_by_cut(b, wr, g) if g else wr
        ctx.check(bool(wr) and bool(g) and not still, "C20-R5", "lexer-error-sticky:" + fn.rsplit("::", 1)[1],
                  "limits are refreshed only while !has_error()", "%s refreshes limits of an errored lexer (the error state is undone)" % fn, site=b.where())
    ee = set(P.callers_of("derivre::regex::AlphabetInfo::enter_error_state"))
    ctx.check(ee <= {RV + "::transition_inner", RV + "::append_state", "llguidance::earley::lexer::Lexer::test_trigger_lexer_error",
                     "llguidance::earley::regexvec::RegexVec::enter_error_state"} and bool(ee), "C20-R5", "lexer-error:setters",
              "the lexer error state is entered from %s" % sorted(x.rsplit("::", 1)[1] for x in ee), "unexpected setters of the lexer error state: %s" % sorted(ee))

    # ------------------------------------------------------------------ R7 the per-step item budget bounds the forcing loop
    # `force_bytes` pushes forced bytes in a loop that ends only when forced_byte() has no answer or a push is refused; for
    # an infinitely forced grammar (start: "a" start) the refusal comes from the item budget set by with_items_limit.  So:
    # (a) the loop runs under with_items_limit, (b) advance_parser refuses *in every mode* once all_items > max_all_items:
    # its row-producing work is dominated by the budget-ok edge, not only in speculative mode.
    STATS = "llguidance::earley::parser::ParserStats"
    fbc = ctx.body(PS + "::force_bytes::{closure#0}")
    fbo = ctx.body(PS + "::force_bytes")
    wl = fbo.call_blocks(PS + "::with_items_limit")
    ok = bool(wl) and any(fbc.id in L._closures_in(fbo.expr(a)) for bi in wl for a in fbo.blocks[bi]["term"]["args"])
    ctx.check(ok and bool(fbc.call_blocks(PS + "::forced_byte")), "C20-R7", "force_bytes:loop-under-item-limit",
              "the forced-byte loop is the closure run by with_items_limit(step_max_items, ..)",
              "force_bytes no longer runs its forcing loop under with_items_limit: an infinitely forced grammar loops forever", site=fbo.where())
    ap = ctx.body(PS + "::advance_parser")
    budget_ok = L.guard_edges_multi(ap, [
        (lambda e: e[0] == "bin" and e[1] == "Gt" and L.is_field_read(STATS, "all_items")(L.strip_wrappers(e[2])) and L.is_field_read(PS, "max_all_items")(L.strip_wrappers(e[3])), False),
        (lambda e: e[0] == "bin" and e[1] == "Le" and L.is_field_read(STATS, "all_items")(L.strip_wrappers(e[2])) and L.is_field_read(PS, "max_all_items")(L.strip_wrappers(e[3])), True)])
    work = ap.call_blocks(lambda d: d in (PS + "::scan", PS + "::lexer_state_for_added_row"))
    still = L.dominated_by_cut(ap, work, budget_ok) if budget_ok else work
    ctx.check(bool(work) and bool(budget_ok) and not still, "C20-R7", "advance_parser:budget-in-every-mode",
              "scan / row creation are dominated by `all_items <= max_all_items` on every path (definitive and speculative)",
              "advance_parser can add rows although the item budget is exhausted (the budget test is bypassed on some path, e.g. in "
              "definitive mode): force_bytes' loop is then unbounded for an infinitely forced grammar", site=ap.where(still[0]) if still else ap.where())
    wil = ctx.body(PS + "::with_items_limit")
    sets = [bi for bi, (w, m, r) in P.block_effects(wil).items() if (PS, "max_all_items") in w]
    ctx.check(len(sets) >= 2 and bool(L.guard_edges(wil, lambda e: e[0] == "bin" and e[1] == "Gt" and L.is_field_read(STATS, "all_items")(L.strip_wrappers(e[2])), True)),
              "C20-R7", "with_items_limit:sets-reports-resets", "with_items_limit sets the budget, reports an overrun as a parser error, and resets it",
              "with_items_limit no longer sets/reports/resets the item budget", site=wil.where())

    # ------------------------------------------------------------------ R8 speculation never pops below its base
    # A mask computation works on top of the committed lexer stack and must leave it as it found it (otherwise the next
    # assert_definitive() panics: `num_rows=.. row_infos=..`).  pop_lexer_states() is the only primitive that pops; its
    # callers are the bracket close (pops exactly len - base), the recogniser's pop_bytes (pops what the walk pushed) and
    # handle_hidden_bytes (stop= lexemes), which pops `hidden_bytes.len() - 1` entries — a count that comes from the
    # lexeme, not from what the walk pushed, and is not compared with the speculation base.
    POP = PS + "::pop_lexer_states"
    popc = sorted(c for c in P.callers_of(POP) if c in P.bodies)
    POP_BOUNDED = {
        PS + "::trie_finished_inner": "pops lexer_stack.len() - <base recorded by trie_started_inner>",
        "<llguidance::earley::parser::ParserRecognizer<'_> as toktrie::toktree::Recognizer>::pop_bytes": "pops bytes the trie walk itself pushed",
    }
    for c in popc:
        cbod = P.bodies[c]
        if c in POP_BOUNDED:
            ctx.ok("C20-R8", "pop-bounded:" + c.rsplit("::", 1)[1], POP_BOUNDED[c])
            continue
        sites = cbod.call_blocks(POP)
        base_fields = [f["name"] for f in P.adts[PS]["variants"][0]["fields"]]
        # a guard that relates the count / the stack length to the speculation base, or restricts the pop to definitive mode
        def base_guard(e):
            txt = F.fmt_expr(e)
            return ("definitive" in txt) or any(("." + n) in txt or txt.startswith(n) for n in ("trie_lexer_stack",)) or L.is_field_read(SCR, "definitive")(L.strip_wrappers(e))
        g = L.guard_edges_multi(cbod, [(base_guard, True), (base_guard, False)])
        still = L.dominated_by_cut(cbod, sites, g) if g else sites
        ctx.check(not still, "C20-R8", "speculative-pop-below-base:" + c.rsplit("::", 1)[1],
                  "the pop is bounded by the speculation base or restricted to definitive mode",
                  "%s pops lexer states by a count taken from the lexeme (hidden bytes) with no comparison against the speculation base: "
                  "during a mask computation it can remove committed entries, and the next assert_definitive() panics" % c,
                  site=cbod.where(sites[0]) if sites else cbod.where())
    ctx.floor("C20-R8", "callers of pop_lexer_states", len(popc), 3)

    # ------------------------------------------------------------------ R9 budgets are extended with saturating arithmetic
    # Budgets default to "no limit" = usize::MAX (max_tokens_total, step_max_items, ...).  Adding to a budget, or adding a
    # configured limit to a running counter, with the overflow-checked `+` panics in debug builds and wraps to a tiny
    # budget in release builds (spurious MaxTokensTotal / "Too many items").  Such additions must be saturating / checked.
    TPARSER = "llguidance::tokenparser::TokenParser"
    LIMITS = "toktrie::ParserLimits"
    lim_adt = next((a for a in P.adts if a.endswith("::ParserLimits")), None)
    budget_fields = {(TPARSER, "max_tokens_total"), (PS, "max_all_items")}
    # parameters that callers fill from a ParserLimits field
    lim_params = set()
    for i, b in P.bodies.items():
        if not P._is_code(b) or not i.startswith("llguidance::"):
            continue
        for bi, t in b.calls():
            d = t["f"].get("def")
            if d in P.bodies and d.startswith("llguidance::"):
                for k, a in enumerate(t["args"]):
                    r_ = L.role(b, a, depth=8)
                    if ".limits." in r_ or (lim_adt and any(f_[0] == lim_adt for f_ in (F.place_fields(F.op_place(a)) if F.op_place(a) else []))):
                        lim_params.add((d, k + 1))
    n_bud = 0
    for i, b in sorted(P.bodies.items()):
        if not P._is_code(b) or not i.startswith(("llguidance::tokenparser::", "llguidance::earley::parser::", "llguidance::constraint::", "llguidance::matcher::")):
            continue
        for bi in sorted(b.live_blocks()):
            t = b.blocks[bi]["term"]
            if not (t["t"] == "assert" and str(t["msg"]) in ("Overflow(Add)", "Overflow(Mul)")):
                continue
            for st in b.blocks[bi]["st"]:
                if st["s"] == "assign" and st["r"].get("rv") == "bin" and st["r"]["op"].endswith("WithOverflow"):
                    hits = []
                    for o in (st["r"]["a"], st["r"]["b"]):
                        pl = F.op_place(o)
                        e = b.expr(o)
                        fs = F.place_fields(e[1]) if e[0] in ("place", "ref") else []
                        if fs and (fs[-1] in budget_fields or (lim_adt and fs[-1][0] == lim_adt)):
                            hits.append("%s.%s" % (fs[-1][0].rsplit("::", 1)[1], fs[-1][1]))
                        elif e[0] == "place" and len(e[1]) == 1 and (i, e[1][0]) in lim_params:
                            hits.append("parameter `%s` (filled from ParserLimits by the callers)" % b.local_name(e[1][0]))
                    if hits:
                        n_bud += 1
                        ctx.violation("C20-R9", "unchecked-budget-arithmetic:%s" % i.replace("llguidance::", ""),
                                      "%s adds to / with the budget value %s using the overflow-checked `+`: with the default \"no limit\" value "
                                      "(usize::MAX) a legal call panics in debug builds and wraps to a tiny budget in release builds"
                                      % (i, ", ".join(hits)), site=b.where(bi))
    if n_bud == 0:
        ctx.ok("C20-R9", "budget-arithmetic", "no overflow-checked addition involves max_tokens_total / max_all_items / a ParserLimits value")

    # ------------------------------------------------------------------ R10 integer logarithms of possibly-zero values
    # `ilog10` / `ilog2` / `ilog` panic for 0 (in every build profile).  A call is accepted only when its argument is known to be
    # non-zero on every path: dominated by `x != 0` / `x > 0` / `x >= 1` (or the false edge of `x == 0` / `x < 1`) on the same
    # expression, or the argument is a non-zero constant / `x + c` / `x | c` with c > 0 / a NonZero type.  The pinned tree has no such
    # call; the rule exists because replacing a digit-counting loop by `ilog10() + 1` is the obvious tidy-up (token id 0,
    # a zero count, an empty length).
    def _same(a, b_):
        return F.fmt_expr(L.strip_wrappers(a)) == F.fmt_expr(L.strip_wrappers(b_))

    def _nonzero_by_shape(e):
        e = L.strip_wrappers(e)
        if e[0] == "const" and isinstance(e[1], int):
            return e[1] != 0
        if e[0] == "bin" and e[1] in ("Add", "BitOr"):
            return any(x[0] == "const" and isinstance(x[1], int) and x[1] > 0 for x in (L.strip_wrappers(e[2]), L.strip_wrappers(e[3])))
        if e[0] == "call" and e[1].rsplit("::", 1)[-1] in ("get",) and "NonZero" in e[1]:
            return True
        if e[0] == "call" and e[1].rsplit("::", 1)[-1] == "max" and len(e[2]) == 2:
            return any(_nonzero_by_shape(x) for x in e[2])
        return False

    n_log = 0
    for i, b in sorted(P.bodies.items()):
        if not P._is_code(b) or not i.startswith(("llguidance::", "toktrie::", "<llguidance::", "<toktrie::", "toktrie_hf_tokenizers::", "toktrie_tiktoken::")):
            continue
        for bi, t in b.calls():
            d = t["f"].get("def", "")
            if not (d.startswith("core::num::") and d.rsplit("::", 1)[-1] in ("ilog10", "ilog2", "ilog")):
                continue
            n_log += 1
            arg = b.expr(t["args"][0])
            if _nonzero_by_shape(arg):
                ctx.ok("C20-R10", "ilog-nonzero:%s" % i.replace("llguidance::", ""), "argument is non-zero by construction")
                continue
            zero = lambda x: x[0] == "const" and x[1] == 0
            one = lambda x: x[0] == "const" and x[1] == 1
            preds = [
                (lambda e: e[0] == "bin" and e[1] == "Ne" and ((_same(e[2], arg) and zero(L.strip_wrappers(e[3]))) or (_same(e[3], arg) and zero(L.strip_wrappers(e[2])))), True),
                (lambda e: e[0] == "bin" and e[1] == "Eq" and ((_same(e[2], arg) and zero(L.strip_wrappers(e[3]))) or (_same(e[3], arg) and zero(L.strip_wrappers(e[2])))), False),
                (lambda e: e[0] == "bin" and e[1] == "Gt" and _same(e[2], arg) and zero(L.strip_wrappers(e[3])), True),
                (lambda e: e[0] == "bin" and e[1] == "Lt" and zero(L.strip_wrappers(e[2])) and _same(e[3], arg), True),
                (lambda e: e[0] == "bin" and e[1] == "Ge" and _same(e[2], arg) and one(L.strip_wrappers(e[3])), True),
                (lambda e: e[0] == "bin" and e[1] == "Lt" and _same(e[2], arg) and one(L.strip_wrappers(e[3])), False),
            ]
            g = L.guard_edges_multi(b, preds)
            still = L.dominated_by_cut(b, [bi], g) if g else [bi]
            ctx.check(not still, "C20-R10", "ilog-of-possibly-zero:%s" % i.replace("llguidance::", ""),
                      "the logarithm's argument is tested non-zero on every path",
                      "%s takes %s of `%s`, which is not known to be non-zero: the call panics for 0 (e.g. token id 0, an empty count), "
                      "turning a legal call into an internal panic" % (i, d.rsplit("::", 1)[-1], F.fmt_expr(arg)), site=b.where(bi))
    if n_log == 0:
        ctx.ok("C20-R10", "ilog-census", "no integer-logarithm call in the workspace crates")

    # ------------------------------------------------------------------ R6 token id range checks
    vt = ctx.body(TP + "::validate_tokens_raw")
    work = vt.call_blocks("llguidance::earley::parser::Parser::validate_tokens")
    # a loop over the whole `tokens` slice checks every id against vocab_size; only the in-range outcome continues
    in_range = [(lambda e: e[0] == "bin" and e[1] in ("Ge", "Gt") and "vocab_size" in repr(e), False),
                (lambda e: e[0] == "bin" and e[1] in ("Lt", "Le") and "vocab_size" in repr(e), True)]
    G = L.guard_edges_multi(vt, in_range)
    tok_param = next((l for l in range(1, vt.argc + 1) if vt.local_ty(l).replace(" ", "") in ("&[u32]", "&[toktrie::TokenId]")), None)
    iters = []
    for bi, t in vt.calls():
        d = t["f"].get("def", "")
        if d.endswith("::into_iter") or d.endswith("::iter"):
            if tok_param is not None and L.root_local(vt, vt.expr(t["args"][0])) == tok_param:
                iters.append(t["dest"][0])
    changed = True
    while changed:   # `iter = move _tmp`
        changed = False
        for l, ds in vt.defs().items():
            if l not in iters and len(ds) == 1 and ds[0][2] == "assign" and ds[0][3]["rv"] == "use":
                pl = F.op_place(ds[0][3]["o"])
                if pl and len(pl) == 1 and pl[0] in iters:
                    iters.append(l)
                    changed = True
    nexts = []
    for bi, t in vt.calls():
        if t["f"].get("def", "").endswith("::next") and t["args"]:
            if L.root_local(vt, vt.expr(t["args"][0]), any_call=False) in iters or any(
                    F.op_place(a) and vt.expr(a)[0] in ("ref", "place") and vt.expr(a)[1][0] in iters for a in t["args"]):
                nexts.append(bi)
    ok = bool(work) and bool(G) and bool(nexts)
    if ok:
        body_entries = []
        for nb in nexts:
            for sb, e, targets, otherwise in vt.switch_edges():
                if e[0] == "discr" and e[1][0] == "call" and len(e[1]) > 3 and e[1][3] == nb:
                    body_entries += [tb for v, tb in targets if v == 1]
        ok = bool(body_entries)
        for s0 in body_entries:
            r = vt.reachable(s0, cut_edges=G)
            if r & (set(nexts) | set(work)):
                ok = False  # an iteration can finish (or reach the validation) without the in-range outcome
        if any(w in vt.reachable(0, cut_blocks=nexts) for w in work):
            ok = False      # the validation call is reachable without going through the checking loop
    ctx.check(ok, "C20-R6", "validate_tokens_raw:range-check",
              "every token id is compared with vocab_size before validation; an out-of-range id returns early",
              "validate_tokens_raw no longer range-checks token ids before handing them to the parser", site=vt.where())
    at = ctx.body(TP + "::apply_token")
    work = at.call_blocks(lambda d: d.endswith("TokTrie::decode_raw") or d == "llguidance::earley::parser::Parser::apply_token")
    g = L.guard_edges_multi(at, in_range)
    still = L.dominated_by_cut(at, work, g) if g else work
    ctx.check(bool(work) and bool(g) and not still, "C20-R6", "apply_token:range-check",
              "the token id is compared with vocab_size before decoding / committing", "TokenParser::apply_token no longer range-checks the token id", site=at.where())
    tk = ctx.body("toktrie::toktree::TokTrie::token")
    ctx.info("C20-R6", "TokTrie::token bounds behaviour: %d blocks" % len(tk.blocks))


def overflow_census(ctx, rule):
    """census of possibly-overflowing integer operations on schema numbers in json/numeric.rs"""
    P = ctx.prog
    n_fn = 0
    for i, b in sorted(P.bodies.items()):
        if not P._is_code(b) or not (i.startswith(NUM) or i.startswith("<llguidance::json::numeric::")) or "::test" in i:
            continue
        ops = collections.Counter()
        for bi in b.live_blocks():
            t = b.blocks[bi]["term"]
            if t["t"] == "assert" and t["msg"].startswith("Overflow"):
                ops[t["msg"]] += 1
            if t["t"] == "call":
                d = t["f"].get("def", "")
                last = d.rsplit("::", 1)[-1]
                if d.startswith("core::num::") and last in ("pow", "abs", "next_power_of_two"):
                    ops["call:" + last] += 1
        if not ops:
            continue
        n_fn += 1
        ent = OVF_CENSUS.get(i)
        if ent is None:
            ctx.violation(rule, "unchecked-arithmetic:" + i.replace("llguidance::json::numeric::", ""),
                          "%s performs possibly-overflowing integer arithmetic on schema numbers (%s) and is not in the reasoned census: "
                          "an overflow wraps in release builds and yields a wrong constraint" % (i, dict(ops)), site=b.where())
            continue
        allowed, why = ent
        over = {k: v for k, v in ops.items() if v > allowed.get(k, 0) and (k.startswith(("Overflow(Mul", "Overflow(Shl", "OverflowNeg", "call:")) or k not in allowed)}
        ctx.check(not over, rule, "census:" + i.replace("llguidance::json::numeric::", ""), "%s — %s" % (dict(ops), why),
                  "%s has new possibly-overflowing operations %s beyond the census %s" % (i, over, allowed), site=b.where())
    ctx.floor(rule, "numeric functions with overflow-checked arithmetic", n_fn, 8)



def r3(ctx):
    """loops whose trip count derives from a user-supplied count must contain a limit check"""
    P = ctx.prog
    n_loops = 0
    for i, b in sorted(P.bodies.items()):
        if not P._is_code(b) or not i.startswith(("llguidance::json::compiler::", "llguidance::grammar_builder::", "llguidance::lark::compiler::")):
            continue
        # tainted locals: flow-insensitive propagation from reads of user-count fields
        taint = set()
        changed = True
        defs = b.defs()

        def op_tainted(o):
            p = F.op_place(o)
            if p is None:
                return False
            if p[0] in taint:
                return True
            return any(f in USER_COUNT_FIELDS for f in F.place_fields(p))

        while changed:
            changed = False
            for l, ds in defs.items():
                if l in taint:
                    continue
                for (bi, si, kind, payload) in ds:
                    t = False
                    if kind == "assign":
                        r = payload
                        if r["rv"] in ("ref", "rawptr", "discr"):
                            pl = r["p"]
                            t = pl[0] in taint or any(f in USER_COUNT_FIELDS for f in F.place_fields(pl))
                        else:
                            t = any(op_tainted(o) for o in F._rvalue_operands(r))
                            # bounded by a constant: min(_, K) / % K clears the taint
                            if r["rv"] == "bin" and r["op"] in ("Rem",):
                                t = False
                    elif kind == "call":
                        d = payload["f"].get("def", "")
                        last = d.rsplit("::", 1)[-1]
                        if last in ("min",) and any("iv" in a for a in payload["args"]):
                            t = False
                        elif last in ("len", "is_empty", "is_some", "is_none", "clone_from"):
                            t = False
                        elif d.startswith(("core::", "alloc::", "<core", "<alloc", "std::")) or last in ("map_or", "unwrap_or", "max", "saturating_sub", "into_iter"):
                            t = any(op_tainted(a) for a in payload["args"])
                    elif kind == "partial":
                        st = payload
                        if st.get("s") == "assign":
                            t = any(op_tainted(o) for o in F._rvalue_operands(st["r"]))
                    if t:
                        taint.add(l)
                        changed = True
                        break
        if not taint:
            continue
        # loops: `next()` calls on a tainted iterator
        for bi, t in b.calls():
            d = t["f"].get("def", "")
            if not d.endswith("::next") or "Iterator" not in d:
                continue
            it = F.op_place(t["args"][0])
            e = b.expr(t["args"][0])
            root = L.root_local(b, e)
            if root is None or root not in taint:
                continue
            if "Range" not in b.local_ty(root):
                continue
            n_loops += 1
            # loop body = blocks on a cycle through this block
            loop = {x for x in b.reachable(bi) if bi in b.reachable(x)}
            has_check = False
            for x in loop:
                tt = b.blocks[x]["term"]
                if tt["t"] == "call":
                    dd = tt["f"].get("def", "")
                    if dd.rsplit("::", 1)[-1] in LIMIT_CHECKS:
                        has_check = True
                    # a callee that always adds grammar nodes checks limits itself
                    if dd in P.bodies and any(c.rsplit("::", 1)[-1] in LIMIT_CHECKS for c in P.callgraph().get(dd, ())):
                        # only counts if the call is on every iteration (dominates the back edge)
                        backs = [p for p in b.preds(bi) if p in loop]
                        if backs and all(x in loop and p not in b.reachable(bi, cut_blocks=[x]) for p in backs):
                            has_check = True
            name = i.rsplit("::", 1)[1]
            ctx.check(has_check, "C20-R3", "user-count-loop:%s@%s" % (name, b.local_name(root) if b.locals[root].get("n") else "iter"),
                      "loop over a user-supplied count performs a resource-limit check on every iteration",
                      "%s iterates a user-supplied count (minItems/maxItems/minLength/maxLength) without a resource-limit check inside the "
                      "loop: a schema such as {\"maxItems\": 1000000000} makes compilation run (and allocate) for that many iterations" % i,
                      site=b.where(bi))
    ctx.floor("C20-R3", "loops over user-supplied counts", n_loops, 1)
