"""C19 — special tokens are allowed only where the grammar names them (clauses)."""
from .. import facts as F
from .. import lib as L
from . import c01

NS = "llguidance::earley::parser::"
PS = NS + "ParserState"
SV = "toktrie::svob::SimpleVob::"
GB = "llguidance::grammar_builder::GrammarBuilder"
LS = "llguidance::earley::lexerspec::LexerSpec"
REC = "<llguidance::earley::parser::ParserRecognizer<'_> as toktrie::toktree::Recognizer>::"

META = dict(
    explanation=(
        "Static analysis over MIR. Decided clauses: R1 the census of token-mask writers (shared with "
        "C01-R4): special-token ids can enter a mask only through the token-range closure of "
        "compute_bias or EOS; that closure runs inside the speculative bracket, after a successful "
        "flush_lexer(), over token_range_lexemes() of the current lexer state, and only with an "
        "empty start; R2 the bare marker token is removed on every path between the trie walk and "
        "both the cache store and the return, and is computed once from greedy_tokenize([0xFF]); R3 "
        "validation never pushes the marker byte into the recogniser and force_bytes expands a "
        "marker only for a uniquely determined token id; R4 the regex builder's utf8/unicode modes "
        "are wired only from !allow_invalid_utf8, token-range lexemes compile to the single "
        "marker regex, and every user-supplied range end is checked against vocab_size before a "
        "lexeme is created."
    ),
    not_decided=(
        "that UTF-8-mode regexes cannot match byte 0xFF (a derivre fact); `<name>` look-ups in the "
        "tokenisation helpers (tokenize_with_special)"
    ),
)
META["explanation"] += (
    " Added after the independent seeding rounds 2-3: " 'R5 token_len (shared with C16-R7). R6 a regex complement is only used under an intersection with a marker-free regex (bare `~X` in a Lark terminal is a known finding).'
)


def complement_rule(ctx, R):
    """derivre's complement `~X` is taken over *all* byte strings, including those that start with the 0xFF marker, i.e. the
    byte images of special tokens.  A complement is therefore only safe as an operand of an intersection with a regex
    that cannot match 0xFF (the JSON compiler does this: `and([valid_string, not(taken)])`).  A function that returns
    the bare result of RegexBuilder::not lets a text terminal admit special tokens."""
    P = ctx.prog
    NOT = "llguidance::grammar_builder::RegexBuilder::not"
    AND = "llguidance::grammar_builder::RegexBuilder::and"
    callers = [c for c in P.callers_of(NOT) if c in P.bodies]
    ctx.floor(R, "callers of RegexBuilder::not", len(callers), 2)
    for c in sorted(callers):
        b = P.bodies[c]
        for bi in b.call_blocks(NOT):
            d = b.blocks[bi]["term"]["dest"][0]
            # does the complement reach the return value without passing through and()?
            flows = {d}
            changed = True
            while changed:
                changed = False
                for l, ds in b.defs().items():
                    if l in flows:
                        continue
                    for (dbi, si, kind, payload) in ds:
                        ops = []
                        if kind == "assign":
                            ops = F._rvalue_operands(payload)
                        elif kind == "call" and payload["f"].get("def") != AND:
                            # Ok(..)/Some(..)-style wrappers and conversions keep the value; and() consumes it
                            dn = payload["f"].get("def", "")
                            if dn.rsplit("::", 1)[-1] in ("from_residual", "branch", "into", "from", "clone", "map"):
                                ops = payload["args"]
                        for o in ops:
                            pl = F.op_place(o)
                            if pl and pl[0] in flows:
                                flows.add(l)
                                changed = True
            returned = 0 in flows
            inst = "complement-only-under-intersection:%s" % c.replace("llguidance::", "")
            ctx.check(not returned, R, inst, "the complement is consumed by RegexBuilder::and together with a marker-free regex",
                      "%s returns the bare complement built by RegexBuilder::not: the terminal `~X` matches every byte string outside X, "
                      "including \\xFF-prefixed special-token images, so a pure text position admits special tokens" % c, site=b.where(bi))


def run(ctx):
    P = ctx.prog
    # R6: complements of regexes and the marker byte
    complement_rule(ctx, "C19-R6")
    # R5: rolling back over a special token must drop exactly the bytes it pushed (\xFF "[" id "]"): token_len (shared, C16-R7)
    from . import c16 as _c16
    _c16.token_len_rule(ctx, "C19-R5")
    # ---------------------------------------------------------------- R1 census (reuse C01-R4 evaluation)
    sub = type(ctx)(ctx.prop, P, ctx.tier, ctx.config)
    c01.run(sub)
    n = 0
    for o in sub.obligations:
        if o["rule"] == "C01-R4":
            n += 1
            o = dict(o)
            o["rule"] = "C19-R1"
            ctx.obligations.append(o)
    ctx.floor("C19-R1", "mask-writer census obligations", n, 8)
    cb = ctx.body(PS + "::compute_bias")
    cl = ctx.body(PS + "::compute_bias::{closure#1}")
    ar = cl.call_blocks(SV + "allow_range")
    if ctx.floor("C19-R1", "allow_range site in the token-range closure", len(ar), 1):
        g = L.guard_edges(cl, L.is_call_to(PS + "::flush_lexer"), True)
        still = L.dominated_by_cut(cl, ar, g) if g else ar
        ctx.check(bool(g) and not still, "C19-R1", "token-range:after-flush_lexer",
                  "allow_range is dominated by a successful flush_lexer()",
                  "token ranges are added to the mask without a successful flush of the pending lexeme", site=cl.where(ar[0]))
        trl = cl.call_blocks(PS + "::token_range_lexemes")
        ctx.check(bool(trl) and ar[0] not in cl.reachable(0, cut_blocks=trl), "C19-R1", "token-range:from-current-state",
                  "the ranges come from token_range_lexemes() of the current lexer state",
                  "the token-range closure no longer derives its ranges from token_range_lexemes()", site=cl.where(ar[0]))
        # the range operand is a clone of an element of spec.token_ranges
        e = cl.expr(cl.blocks[ar[0]]["term"]["args"][1])
        ctx.check(e[0] == "call" and e[1].endswith("::clone"), "C19-R1", "token-range:operand",
                  "allow_range receives a clone of a grammar-declared range", "allow_range receives %s" % F.fmt_expr(e), site=cl.where(ar[0]))
    # closure runs via run_speculative under start.is_empty()
    rs = [bi for bi, t in cb.calls() if t["f"].get("def") == PS + "::run_speculative"]
    g = L.guard_edges(cb, lambda e: e[0] == "call" and e[1] == "core::slice::<impl [T]>::is_empty", True)
    still = L.dominated_by_cut(cb, rs, g) if g else rs
    ctx.check(bool(rs) and bool(g) and not still, "C19-R1", "token-range:only-with-empty-start",
              "the token-range probe runs only when start is empty", "token ranges can be added while forced bytes are pending", site=cb.where())
    # token_range_lexemes is computed from possible_lexemes(current state)
    trl = ctx.body(PS + "::token_range_lexemes")
    need = ["llguidance::earley::lexer::Lexer::possible_lexemes", LS + "::token_range_lexemes", PS + "::lexer_state"]
    have = [P.bodies[trl.id].callee(t) for _, t in trl.calls()]
    ctx.check(all(x in have for x in need), "C19-R1", "token_range_lexemes:definition",
              "token_range_lexemes = spec.token_range_lexemes(lexer.possible_lexemes(current state))",
              "ParserState::token_range_lexemes no longer filters the possible lexemes of the current state (calls: %s)" % have, site=trl.where())

    # ---------------------------------------------------------------- R2 marker removal
    walk = [bi for bi, t in cb.calls() if t["f"].get("def") == PS + "::with_items_limit"]
    dis = []
    for bi, t in cb.calls():
        if t["f"].get("def") == SV + "disallow_token":
            e = cb.expr(t["args"][1])
            if e[0] == "place" and F.place_fields(e[1]) and F.place_fields(e[1])[-1] == (PS, "special_token_marker_token"):
                dis.append(bi)
    if ctx.floor("C19-R2", "disallow_token(special_token_marker_token) in compute_bias", len(dis), 1) and walk:
        # paths from the walk to return / cache store avoid `dis` only via the != INVALID_TOKEN false edge
        inv = L.guard_edges(cb, lambda e: e[0] == "bin" and e[1] in ("Ne", "Eq") and any(
            x[0] == "place" and F.place_fields(x[1]) and F.place_fields(x[1])[-1] == (PS, "special_token_marker_token") for x in (e[2], e[3])), False)
        store = [bi for bi, (w, m, r) in P.block_effects(cb).items() if (PS, "bias_cache") in w and bi in cb.reachable(walk[0])]
        bad = L.must_pass(cb, walk, dis, targets=set(cb.return_blocks()) | set(store), cut_edges=inv)
        ctx.check(not bad and bool(inv), "C19-R2", "marker-removed-before-store-and-return",
                  "every path from the trie walk to the cache store / return removes the bare marker token (unless the vocabulary has none)",
                  "compute_bias can return or cache a mask that still contains the bare special-marker token", site=cb.where(dis[0]))
        # the != compares with INVALID_TOKEN
        ok = False
        for bi, e, targets, otherwise in cb.switch_edges():
            cur, pol = F.peel_polarity(e)
            if cur[0] == "bin" and cur[1] in ("Ne", "Eq"):
                for x, y in ((cur[2], cur[3]), (cur[3], cur[2])):
                    if x[0] == "place" and F.place_fields(x[1]) and F.place_fields(x[1])[-1] == (PS, "special_token_marker_token"):
                        ok = ok or (y[0] == "const" and "INVALID_TOKEN" in str(y[3]) or (y[0] == "const" and y[1] == 0xFFFFFFFF))
        ctx.check(ok, "C19-R2", "marker-skip-only-if-invalid", "the removal is skipped only when the marker token is INVALID_TOKEN",
                  "the marker removal in compute_bias is conditional on something other than `!= INVALID_TOKEN`", site=cb.where(dis[0]))
    # special_token_marker_token written once, in ParserState::new, from greedy_tokenize(&[0xFF])
    ws = set()
    for b in P.bodies.values():
        if P._is_code(b):
            w, m, r = P.own_effects(b)
            if (PS, "special_token_marker_token") in w:
                ws.add(b.id)
    inits = [x for x in L.struct_inits(P, PS)]
    ctx.check(not ws and len(inits) == 1 and inits[0][0].id == PS + "::new", "C19-R2", "marker-token:set-once",
              "special_token_marker_token is only set by the struct literal in ParserState::new",
              "special_token_marker_token is written by %s / %d struct literals" % (sorted(ws), len(inits)))
    if inits:
        b, bi, fm, _ = inits[0]
        nb = ctx.body(PS + "::new")
        gt = nb.call_blocks("toktrie::toktree::TokTrie::greedy_tokenize")
        ok = False
        for g_ in gt:
            t = nb.blocks[g_]["term"]
            e = nb.expr(t["args"][1])
            txt = repr(e)
            ok = ok or "SPECIAL_TOKEN_MARKER" in txt or "255" in txt
        ctx.check(ok, "C19-R2", "marker-token:from-greedy_tokenize-0xFF",
                  "the marker token is looked up with greedy_tokenize(&[SPECIAL_TOKEN_MARKER])",
                  "ParserState::new no longer derives the marker token from greedy_tokenize(&[0xFF])", site=nb.where())

    # ---------------------------------------------------------------- R3 validation / forcing and 0xFF
    vt = ctx.body(PS + "::validate_tokens::{closure#0}")
    pushes = vt.call_blocks(REC + "try_push_byte")
    def marker_ne(e):
        if e[0] == "bin" and e[1] in ("Ne", "Eq"):
            return any(x[0] == "const" and ("SPECIAL_TOKEN_MARKER" in str(x[3]) or x[1] == 255) for x in (e[2], e[3]))
        return False
    if ctx.floor("C19-R3", "try_push_byte site in validate_tokens", len(pushes), 1):
        g = [x for x in L.guard_edges(vt, marker_ne, True)]
        # polarity: we need edges where b != MARKER holds; Ne true or Eq false
        edges = []
        for bi, e, targets, otherwise in vt.switch_edges():
            cur, pol = F.peel_polarity(e)
            if marker_ne(cur):
                tt, ft = F.bool_targets(targets, otherwise)
                is_ne = cur[1] == "Ne"
                want_true = (is_ne == pol)
                for t in (tt if want_true else ft):
                    edges.append((bi, t))
        still = L.dominated_by_cut(vt, pushes, edges) if edges else pushes
        ctx.check(bool(edges) and not still, "C19-R3", "validate:never-push-marker",
                  "the speculative push in validate_tokens is dominated by b != SPECIAL_TOKEN_MARKER",
                  "validate_tokens can push the special-marker byte 0xFF into the recogniser", site=vt.where(pushes[0]))
    # sibling cross-check: the other driver that feeds vocabulary token bytes to the recogniser is the trie walk
    # behind compute_bias. It has no marker guard, so a special token is admitted *by its spelling* whenever the
    # lexer accepts 0xFF + name — i.e. a special token literally named "[5]" is allowed wherever <[5]> is.
    # Mitigation accepted by the rule: a marker guard in the speculative try_push_byte, or a post-walk filter in
    # ParserState::compute_bias that clears the special-token subtree (get_special_tokens / is_special_token).
    tp = ctx.body(REC + "try_push_byte")
    adv = tp.call_blocks("llguidance::earley::lexer::Lexer::advance")
    edges = []
    for bi, e, targets, otherwise in tp.switch_edges():
        cur, pol = F.peel_polarity(e)
        if marker_ne(cur):
            tt, ft = F.bool_targets(targets, otherwise)
            want_true = ((cur[1] == "Ne") == pol)
            for t in (tt if want_true else ft):
                edges.append((bi, t))
    guarded = bool(edges) and not L.dominated_by_cut(tp, adv, edges)
    cbody = ctx.body(PS + "::compute_bias")
    filt = [bi for bi, t in cbody.calls() if t["f"].get("def", "").rsplit("::", 1)[-1] in ("get_special_tokens", "is_special_token", "special_token_set", "disallow_special_tokens")]
    ctx.check(guarded or bool(filt), "C19-R3", "mask-walk-admits-special-tokens-by-spelling",
              "the mask walk cannot admit a special token through its byte spelling",
              "validate_tokens refuses to push the marker byte, but the trie walk behind compute_bias pushes every token's bytes "
              "(including 0xFF-prefixed special tokens) into the recogniser and only the bare marker token is removed afterwards: "
              "a special token whose name matches the numeric reference syntax (bytes FF '[' digits ']') is put into the mask "
              "wherever the grammar names <[digits]>, although it is a different token id", site=tp.where())
    fb = ctx.body(PS + "::force_bytes::{closure#0}")
    edges = []
    for bi, e, targets, otherwise in fb.switch_edges():
        cur, pol = F.peel_polarity(e)
        if marker_ne(cur):
            tt, ft = F.bool_targets(targets, otherwise)
            is_eq = cur[1] == "Eq"
            want_true = (is_eq == pol)
            for t in (tt if want_true else ft):
                edges.append((bi, t))
    ctx.check(bool(edges), "C19-R3", "force_bytes:marker-branch-exists", "force_bytes special-cases a forced 0xFF",
              "force_bytes no longer special-cases the marker byte", site=fb.where())
    if edges:
        marker_region = L.blocks_only_via_edges(fb, edges)
        plain = []
        for bi in fb.call_blocks(PS + "::try_push_byte_definitive"):
            t = fb.blocks[bi]["term"]
            e = fb.expr(t["args"][1])
            src = e[2][0] if e[0] == "agg" and e[2] else None
            if src is not None and src[0] == "place":
                base = fb.expr_place([src[1][0]])
                if base[0] == "call" and base[1] == PS + "::forced_byte":
                    plain.append(bi)
        # the plain push must not be reachable from the marker arm without passing `continue/break`
        heads = [t for _, t in edges]
        reach = set()
        for h in heads:
            reach |= fb.reachable(h, cut_blocks=fb.call_blocks(PS + "::forced_byte"))
        bad = [p for p in plain if p in reach]
        ctx.check(bool(plain) and not bad, "C19-R3", "force_bytes:marker-never-pushed-raw",
                  "after a forced 0xFF the loop never falls through to the plain one-byte push",
                  "force_bytes can push a bare 0xFF byte when the special token is not uniquely determined", site=fb.where())

    # ---------------------------------------------------------------- R4 UTF-8 wiring and range checks
    RB = "derivre::regexbuilder::RegexBuilder::"
    for m in ("utf8", "unicode"):
        cs = P.callers_of(RB + m)
        ctx.check(set(cs) == {GB + "::add_grammar_with_skip"}, "C19-R4", "wiring:" + m + ":single-caller",
                  "RegexBuilder::%s is configured only in GrammarBuilder::add_grammar_with_skip" % m,
                  "RegexBuilder::%s is now set from %s" % (m, cs))
    ag = ctx.body(GB + "::add_grammar_with_skip")
    for m in ("utf8", "unicode"):
        for bi in ag.call_blocks(RB + m):
            e = ag.expr(ag.blocks[bi]["term"]["args"][1])
            cur, pol = F.peel_polarity(e)
            ok = (not pol) and cur[0] == "place" and F.place_fields(cur[1]) and F.place_fields(cur[1])[-1][1] == "allow_invalid_utf8"
            ctx.check(ok, "C19-R4", "wiring:" + m + ":argument", "argument is !options.allow_invalid_utf8",
                      "RegexBuilder::%s receives %s instead of !allow_invalid_utf8" % (m, F.fmt_expr(e)), site=ag.where(bi))
    # every producer of a token-range lexeme checks range ends against vocab_size
    ast_ = LS + "::add_special_token"
    callers = set(P.callers_of(ast_))
    exp = {GB + "::token_ranges", GB + "::negated_token_ranges", GB + "::special_token", GB + "::any_token"}
    ctx.check(callers == exp, "C19-R4", "add_special_token:callers", "token-range lexemes are created only by the 4 builder methods",
              "add_special_token has callers %s (expected %s)" % (sorted(callers), sorted(exp)))
    for fn in (GB + "::token_ranges", GB + "::negated_token_ranges"):
        b = ctx.body(fn)
        site = b.call_blocks(ast_)
        def lt_vocab(e):
            if not (e[0] == "bin" and "RangeInclusive::<Idx>::end" in repr(e[2]) and "vocab_size" in repr(e[3])):
                return False
            if e[1] == "Lt":
                return True
            # `end <= vocab_size - 1` is the same test
            r_ = L.strip_wrappers(e[3])
            return e[1] == "Le" and r_[0] == "bin" and r_[1] == "Sub" and r_[3][0] == "const" and r_[3][1] == 1
        g = L.guard_edges(b, lt_vocab, True)
        # when no tokenizer is available the check is skipped (documented warning): the `trie is None` arm
        none_edges = []
        for bi, e, targets, otherwise in b.switch_edges():
            if e[0] == "discr":
                txt = repr(e)
                if "tok_env" in txt or "trie" in txt or "Option" in txt:
                    for v, t in targets:
                        if v == 0:
                            none_edges.append((bi, t))
        # at least one range-end comparison must exist and, for token_ranges, lie on every path of a loop iteration
        ctx.check(bool(g), "C19-R4", "range-end-checked:" + fn.rsplit("::", 1)[1],
                  "range ends are compared with vocab_size before the lexeme is created",
                  "%s no longer checks `end < vocab_size`: a mask could name ids outside the vocabulary" % fn, site=b.where())
        if g and site:
            cmp_blocks = [bi for (bi, _) in g]
            # the comparison is on every path through the loop body: the failing edge leads to an error return
            tt = set(t for (_, t) in g)
            ft = []
            for bi in cmp_blocks:
                for s in b.succs(bi):
                    if s not in tt:
                        ft.append(s)
            errs = all(not (set(site) & b.reachable(s)) for s in ft)
            ctx.check(errs, "C19-R4", "range-end-failure-aborts:" + fn.rsplit("::", 1)[1],
                      "a failed range check cannot reach add_special_token",
                      "%s continues to add_special_token after a failed vocab_size check" % fn, site=b.where())
    # allow_range asserts end < size
    arb = ctx.body(SV + "allow_range")
    g = L.guard_edges(arb, lambda e: e[0] == "bin" and e[1] in ("Lt", "Le") , True)
    wr = [bi for bi, (w, m, r) in P.block_effects(arb).items() if ("toktrie::svob::SimpleVob", "data") in w or any(x[0] == ("toktrie::svob::SimpleVob", "data") for x in m)]
    still = L.dominated_by_cut(arb, wr, g) if g else wr
    ctx.check(bool(wr) and bool(g) and not still, "C19-R4", "allow_range:bounds-assert",
              "every data write in allow_range is dominated by the range-end assertion",
              "SimpleVob::allow_range writes without checking the range end against the set size", site=arb.where())
    # token-range lexemes compile to the single marker regex
    als = ctx.body(LS + "::add_lexeme_spec")
    reads = P.own_effects(als)[2]
    ctx.check((LS, "special_token_rx") in reads, "C19-R4", "token-range-regex:shared", "token-range lexemes use the shared special_token_rx",
              "add_lexeme_spec no longer routes token-range lexemes through special_token_rx", site=als.where())
    found = False
    for pb in [als] + P.promoted_of(als.id):
        for bi, si, st in pb.statements(live_only=False):
            txt = repr(st)
            if "\\\\[[0-9]+\\\\]" in txt or "[[0-9]+\\\\]" in txt or "[0-9]+" in txt:
                found = True
    for bi, t in als.calls():
        for a in t["args"]:
            if "[0-9]+" in repr(a):
                found = True
    ctx.check(found, "C19-R4", "token-range-regex:shape", "the marker regex is 0xFF followed by \\[[0-9]+\\]",
              "the special-token regex literal `\\[[0-9]+\\]` was not found in add_lexeme_spec", site=als.where())
    # ---- the complement sweep of <[^...]> is monotone: ranges are sorted by start only, so a range nested in an earlier one
    # must not move the sweep position backwards — every in-loop assignment of the position is max(position, end + 1), or is
    # made only where `end >= position` is known (the "already covered" skip)
    nb_ = ctx.body(GB + "::negated_token_ranges")
    pos = None
    for l_ in range(nb_.argc + 1, len(nb_.locals)):
        if nb_.locals[l_].get("n") and len([d for d in nb_.defs().get(l_, []) if d[2] in ("assign", "call")]) >= 2 and nb_.local_ty(l_) == "u32":
            # the sweep position is the u32 local that is both compared with a range start and re-assigned in the loop
            uses = [1 for sb, e, tg, ow in nb_.switch_edges() if e[0] == "bin" and any(x[0] in ("local",) and x[1] == l_ for x in (L.strip_wrappers(e[2]), L.strip_wrappers(e[3])))]
            if uses:
                pos = l_
    if pos is None:
        ctx.info("C19-R4", "negated_token_ranges: sweep position not recognised (not judged)")
    else:
        defs = [(bi, k, p) for (bi, si, k, p) in nb_.defs().get(pos, []) if k in ("assign", "call")]
        first = min(bi for bi, _, _ in defs)
        is_pos = lambda x: (x[0] == "local" and x[1] == pos) or (x[0] == "place" and x[1] == [pos])
        covered = L.guard_edges_multi(nb_, [
            (lambda e: e[0] == "bin" and e[1] == "Lt" and is_pos(L.strip_wrappers(e[3])), False),   # !(end < current)
            (lambda e: e[0] == "bin" and e[1] == "Ge" and is_pos(L.strip_wrappers(e[3])), True),
            (lambda e: e[0] == "bin" and e[1] == "Gt" and is_pos(L.strip_wrappers(e[2])), False),
            (lambda e: e[0] == "bin" and e[1] == "Le" and is_pos(L.strip_wrappers(e[2])), True)])
        bad = []
        for bi, k, p in defs:
            if bi == first:
                continue
            if k == "call":
                d_ = p["f"].get("def", "")
                if d_.rsplit("::", 1)[-1] == "max" and any(is_pos(L.strip_wrappers(nb_.expr(a))) for a in p["args"]):
                    continue
            if covered and not L.dominated_by_cut(nb_, [bi], covered):
                continue
            bad.append(bi)
        ctx.check(not bad, "C19-R4", "negated_token_ranges:sweep-is-monotone",
                  "the sweep position only moves forward (max(position, end + 1), or assigned under end >= position)",
                  "negated_token_ranges can move its sweep position backwards (`current = end + 1` for a range nested in an earlier one): the tail of the "
                  "outer range is emitted as allowed — <[^258-263,260]> allows 261..263", site=nb_.where(bad[0]) if bad else nb_.where())

