"""C14 — clones are independent; results do not depend on scheduling (structural clauses)."""
import json

import re

from .. import facts as F
from .. import lib as L

NS = "llguidance::earley::parser::"
PS = NS + "ParserState"
PARSER = NS + "Parser"
RV = "llguidance::earley::regexvec::RegexVec"

META = dict(
    explanation=(
        "Static analysis over type layouts, MIR effects and the call graph. Decided clauses: R1 a "
        "complete census of state that clones can share: walking the field types of every engine root "
        "type (Matcher, Constraint, TokenParser, StopController, ParserFactory and the C handles), the "
        "set of interior-mutable pointees behind Arc/Rc, of trait objects behind Arc, of raw pointers and "
        "of interior-mutable statics equals a frozen table — anything new is reported; R2 the lexer "
        "tables (ParserState.shared_box) are touched only by code that runs inside Parser::with_shared's "
        "closure (lock held) or during construction, Parser.shared is touched only through lock(), and "
        "with_shared takes the box out and puts it back on its single normal path; R3 the shared lexer "
        "tables are append-only (no shrinking call on state_table/state_descs/rx_sets/rx_list, cell "
        "writes to state_table only in transition_inner, memo fields of StateDesc are write-once "
        "Options); R4 Send/Sync of the engine root types as decided by the trait solver; R5 in the batch "
        "API every rayon task dereferences only its own step's constraint pointer."
    ),
    not_decided=(
        "that table contents never influence results (memo purity of derivre); fuel accounting near the "
        "limits (a sibling's work can consume shared fuel — documented assumption 'within limits')"
    ),
)

ROOTS = ["llguidance::matcher::Matcher", "llguidance::constraint::Constraint", "llguidance::tokenparser::TokenParser",
         "llguidance::stop_controller::StopController", "llguidance::factory::ParserFactory", "llguidance::ffi::LlgConstraint",
         "llguidance::ffi::LlgMatcher", "llguidance::ffi::LlgTokenizer", "llguidance::ffi::LlgStopController"]
SHARED_PTRS = ("alloc::sync::Arc", "alloc::rc::Rc", "alloc::sync::Weak", "alloc::rc::Weak")

EXPECT_NONFREEZE = {
    "std::sync::poison::mutex::Mutex<alloc::boxed::Box<llguidance::earley::parser::SharedState>>":
        "Parser.shared: lexer tables shared by shallow clones, every access under the lock (R2)",
    "std::sync::poison::mutex::Mutex<llguidance::earley::regexvec::RegexVec>":
        "StopRegex.dfa: stop-regex automaton, every access under the lock",
    "llguidance::earley::perf::ParserPerfCounters":
        "atomic timing counters; never read by mask/commit code (checked below)",
}
EXPECT_DYN = {
    "toktrie::tokenv::TokenizerEnv": "TokEnv: immutable tokenizer environment (trait requires Send + Sync)",
    "llguidance::earley::parser::BiasComputer": "slicer: immutable after construction (trait requires Send + Sync)",
}
EXPECT_STATICS = {
    "llguidance::panic_utils::INSTALL_HOOK": "std::sync::Once: installs the panic hook once",
    "llguidance::panic_utils::UNWIND_COUNT": "thread-local nesting counter of catch_unwind",
    "llguidance::panic_utils::BACKTRACE": "thread-local backtrace slot",
    "llguidance::ffi::llg_get_version::VERSION": "OnceLock<CString> with the version string",
}


# what lives inside the cells that clones share: each field is a lexer table / memo of derivatives that is
# keyed by lexer state only (never by a position in one engine's history). A new field is reported.
SHARED_CONTENT = {
    "llguidance::earley::parser::SharedState": {"lexer_opt": "the lexer"},
    "llguidance::earley::lexer::Lexer": {"dfa": "derivative automaton", "allowed_first_byte": "constant after construction",
                                          "spec": "lexer spec, constant after construction"},
    "llguidance::earley::regexvec::RegexVec": {
        "exprs": "hash-consed regex expressions (append-only)", "deriv": "derivative memo", "next_byte": "next-byte memo",
        "relevance": "emptiness memo", "alpha": "alphabet compression + sticky error flag", "rx_lexemes": "constant",
        "lazy": "constant", "subsumable": "constant", "rx_list": "constant", "special_token_rx": "constant",
        "rx_sets": "hash-consed state descriptors (append-only)", "state_table": "transition table (MISSING -> state, write-once cells)",
        "state_descs": "per-state memo (append-only)", "num_transitions": "statistics", "num_ast_nodes": "statistics",
        "max_states": "limit (set per call from the engine's limits)", "fuel": "limit (set per call from the engine's limits)"},
    # the per-state memo records: everything in them must be a function of the lexer state alone (never of the Earley row,
    # the history or the calling engine), because every clone reads them
    "llguidance::earley::regexvec::StateDesc": {
        "state": "the state id itself", "greedy_accepting": "nullable lexemes of the state", "possible": "lexemes of the state",
        "possible_lookahead_len": "memo of a function of the state's expressions", "lookahead_len": "memo of a function of the state's expressions",
        "next_byte": "memo of a function of the state's expressions", "lazy_accepting": "function of the state's expressions",
        "lazy_hidden_len": "function of the state's expressions", "has_special_token": "function of the state's expressions"},
}


def ty_name(t):
    k = t["k"]
    if k == "adt":
        if t["args"]:
            return "%s<%s>" % (t["n"], ", ".join(ty_name(a) for a in t["args"] if not (a["k"] == "adt" and a["n"] == "alloc::alloc::Global")))
        return t["n"]
    if k == "prim":
        return t["n"]
    if k == "dyn":
        return "dyn " + " + ".join(t["traits"])
    if k in ("ref", "ptr", "slice", "array"):
        return {"ref": "&", "ptr": "*", "slice": "[]", "array": "[;]"}[k] + ty_name(t["t"])
    if k == "tuple":
        return "(" + ", ".join(ty_name(x) for x in t["ts"]) + ")"
    return t.get("s", k)


def run(ctx):
    P = ctx.prog
    # ------------------------------------------------------------------ R1 census
    nonfreeze, dyns, rawptrs = {}, {}, {}
    seen = set()

    def walk(t, path):
        k = t["k"]
        if k == "adt":
            n = t["n"]
            if n in SHARED_PTRS:
                for a in t["args"]:
                    if a["k"] == "adt" and a["n"] == "alloc::alloc::Global":
                        continue
                    if a["k"] == "dyn":
                        for tr in a["traits"]:
                            if not tr.startswith("core::marker::"):
                                dyns.setdefault(tr, path)
                    elif a["k"] == "adt" and a.get("freeze") is False:
                        nonfreeze.setdefault(ty_name(a), path)
                    walk(a, path)
                return
            for a in t["args"]:
                walk(a, path)
            if n in P.adts and n not in seen:
                seen.add(n)
                for v in P.adts[n]["variants"]:
                    for f in v["fields"]:
                        walk(f["t"], path + ["%s.%s" % (n.rsplit("::", 1)[1], f["name"])])
        elif k == "ptr":
            rawptrs.setdefault(ty_name(t), path)
            walk(t["t"], path)
        elif k in ("ref", "slice", "array"):
            walk(t["t"], path)
        elif k == "tuple":
            for x in t["ts"]:
                walk(x, path)

    for r in ROOTS:
        if r not in P.adts:
            ctx.violation("C14-R1", "anchor-missing:" + r, "root type %s not found" % r)
            continue
        walk(dict(k="adt", n=r, args=[]), [])
    ctx.floor("C14-R1", "ADTs reachable from the engine root types", len(seen), 40)
    for n, path in sorted(nonfreeze.items()):
        ctx.check(n in EXPECT_NONFREEZE, "C14-R1", "shared-mutable:" + n, EXPECT_NONFREEZE.get(n, ""),
                  "new interior-mutable state shared between clones: Arc/Rc<%s> reachable via %s — clones are no longer independent "
                  "unless every access is proven synchronised and result-neutral" % (n, " -> ".join(path)))
    for n in EXPECT_NONFREEZE:
        ctx.check(n in nonfreeze, "C14-R1", "shared-mutable-present:" + n, "still present (census anchored)",
                  "expected shared cell %s no longer found: the census table is stale" % n)
    for n, path in sorted(dyns.items()):
        ctx.check(n in EXPECT_DYN, "C14-R1", "shared-dyn:" + n, EXPECT_DYN.get(n, ""),
                  "new trait object behind a shared pointer: Arc<dyn %s> via %s (its implementations may hide mutable state)" % (n, " -> ".join(path)))
    for adt_name, table in SHARED_CONTENT.items():
        a = P.adts.get(adt_name)
        if a is None:
            ctx.violation("C14-R1", "anchor-missing:" + adt_name, "shared type %s not found" % adt_name)
            continue
        for f in a["variants"][0]["fields"]:
            ctx.check(f["name"] in table, "C14-R1", "shared-content:%s.%s" % (adt_name.rsplit("::", 1)[1], f["name"]),
                      table.get(f["name"], ""),
                      "%s.%s (%s) is new state inside the cell that shallow clones share (Arc<Mutex<..>>): every clone reads and "
                      "writes the same slot, so per-engine data placed here (e.g. a cache keyed by a position in one engine's history) "
                      "leaks between clones" % (adt_name.rsplit("::", 1)[1], f["name"], f["ty"]),
                      site="%s:%s" % (a["file"], a["line"]))
    ctx.info("C14-R1", "raw pointers reachable from root types: %s" % sorted(rawptrs))
    for n, path in sorted(rawptrs.items()):
        ctx.check(path and path[0].startswith(("Llg",)), "C14-R1", "rawptr:" + n, "raw pointer only inside C-API handle structs (%s)" % path[0],
                  "raw pointer %s reachable from engine type via %s" % (n, " -> ".join(path)))
    st = {}
    for sid, s in P.statics.items():
        if s["freeze"] and not s["mutable"]:
            continue
        base = sid.split("::{constant#")[0]
        st.setdefault(base, s)
    for n, s in sorted(st.items()):
        ctx.check(n in EXPECT_STATICS, "C14-R1", "static:" + n, EXPECT_STATICS.get(n, ""),
                  "new interior-mutable / mutable static %s: %s — process-wide state shared by all engines" % (n, s["ty"]),
                  site="%s:%s" % (s["file"], s["line"]))
    # Rc<RefCell<..>> exists only inside schema compilation: not reachable from roots (implied by the census above)
    # perf counters are never read on mask/commit paths
    PERF = "llguidance::earley::perf::"
    readers = set()
    for b in P.bodies.values():
        if not P._is_code(b) or PERF in b.id:
            continue
        for bi, t in b.calls():
            d = t["f"].get("def", "")
            if d.startswith(PERF) and d.rsplit("::", 1)[1] not in ("record", "new", "default", "clone"):
                readers.add((b.id, d))
    okr = {r for r in readers if r[1].rsplit("::", 1)[1] in ("fmt", "to_string", "counters", "reset", "now")}
    ctx.check(readers == okr or not readers, "C14-R1", "perf-counters:write-only",
              "shared perf counters are only recorded into by engine code (readers: %s)" % sorted(r[0].rsplit("::", 1)[1] for r in readers),
              "engine code reads shared perf counters: %s" % sorted(readers - okr))

    # ------------------------------------------------------------------ R2 lexer tables only under the lock
    ws = ctx.body(PARSER + "::with_shared")
    touch_box = set()
    for b in P.bodies.values():
        if P._is_code(b) and not b.rec.get("derived"):
            w, m, r = P.own_effects(b)
            if (PS, "shared_box") in r or (PS, "shared_box") in w or any(x[0] == (PS, "shared_box") for x in m):
                touch_box.add(b.id)
    ctx.floor("C14-R2", "functions touching ParserState.shared_box", len(touch_box), 6)
    # every Parser method (not closure) must not reach a shared_box toucher except through with_shared / construction
    allowed_entry = {ws.id, PS + "::new", PARSER + "::new"}
    n_checked = 0
    for i, b in sorted(P.bodies.items()):
        if not (i.startswith(PARSER + "::") and b.kind == "assoc_fn") or i in allowed_entry:
            continue
        n_checked += 1
        cl = set(P.closures_of(i))
        # closures passed to with_shared run under the lock
        locked = set()
        for bi, t in b.calls():
            if t["f"].get("def") == ws.id:
                for a in t["args"]:
                    e = b.expr(a)
                    if e[0] == "closure":
                        locked.add(e[1])
                    elif e[0] == "agg" and isinstance(e[1], dict) and "closure" in e[1]:
                        locked.add(e[1]["closure"])
        reach = P.reachable_from([i], stop=locked | {ws.id})
        bad = sorted((reach & touch_box) - {ws.id})
        ctx.check(not bad, "C14-R2", "lexer-under-lock:" + i.rsplit("::", 1)[1],
                  "does not touch the lexer tables outside with_shared",
                  "%s reaches %s (which reads/writes the shared lexer box) without going through Parser::with_shared: the "
                  "lexer tables of sibling clones are accessed without the lock" % (i, bad[:2]),
                  site=b.where(), path=P.call_path(i, bad[0], stop=locked | {ws.id}) if bad else None)
    ctx.floor("C14-R2", "Parser methods checked", n_checked, 25)
    callers = P.callers_of(ws.id)
    ctx.floor("C14-R2", "callers of with_shared", len(callers), 9)
    # Parser.shared touched only through lock()
    for b in P.bodies.values():
        if not P._is_code(b) or b.rec.get("derived"):
            continue
        for bi, si, st in b.statements():
            if st["s"] != "assign":
                continue
            r = st["r"]
            if r["rv"] in ("ref", "rawptr") and F.place_fields(r["p"])[-1:] == [(PARSER, "shared")]:
                # the reference must flow into Mutex::lock / Arc::clone / Arc::new(deep clone assignment)
                tgt = st["p"][0]
                used = []
                for b2, t in b.calls():
                    for a in t["args"]:
                        e = b.expr(a)
                        if e[0] == "ref" and F.place_fields(e[1])[-1:] == [(PARSER, "shared")]:
                            used.append(t["f"].get("def", "?"))
                bad = [u for u in used if not (u.endswith("Mutex::<T>::lock") or u.endswith("::deref") or u.endswith("Clone>::clone") or u.endswith("::as_ref"))]
                ctx.check(not bad, "C14-R2", "Parser.shared:only-lock:" + b.id.rsplit("::", 1)[1],
                          "Parser.shared is only locked / cloned here", "%s uses Parser.shared via %s" % (b.id, bad), site=b.where(bi))
    # with_shared: take out, run, put back, on the single normal path
    takes = [bi for bi, t in ws.calls() if t["f"].get("def", "").endswith("core::mem::take")]
    lock = [bi for bi, t in ws.calls() if t["f"].get("def", "").endswith("Mutex::<T>::lock")]
    runs = [bi for bi, t in ws.calls() if "call_once" in t["f"].get("def", "")]
    ok = len(takes) == 2 and len(lock) == 1 and len(runs) == 1
    if ok:
        order = ws.reachable(0, cut_blocks=[lock[0]])
        ok = takes[0] not in order and runs[0] not in ws.reachable(0, cut_blocks=[takes[0]]) and not L.must_pass(ws, [runs[0]], [takes[1]])
    ctx.check(ok, "C14-R2", "with_shared:take-run-putback", "lock -> take box -> run closure -> put box back, on every normal path",
              "Parser::with_shared no longer brackets the closure with lock/take/put-back", site=ws.where())
    put = [bi for bi, (w, m, r) in P.block_effects(ws).items() if (PS, "shared_box") in w]
    ctx.check(bool(put), "C14-R2", "with_shared:installs-box", "the shared box is installed into self.state.shared_box",
              "with_shared no longer installs the shared box into the state", site=ws.where())

    # ------------------------------------------------------------------ R3 append-only tables
    TABLES = [(RV, "state_table"), (RV, "state_descs"), (RV, "rx_sets"), (RV, "rx_list"), (RV, "rx_lexemes")]
    for b in P.bodies.values():
        if not P._is_code(b):
            continue
        for bi, (w, m, r) in P.block_effects(b).items():
            for fld, callee in m:
                if fld in TABLES and L.is_shrinker(callee):
                    ctx.violation("C14-R3", "shrinks:%s:%s" % (fld[1], b.id), "%s applies %s to shared lexer table RegexVec.%s: states already "
                                  "handed out to sibling clones change meaning" % (b.id, callee, fld[1]), site=b.where(bi))
    ctx.ok("C14-R3", "no-shrinking-calls", "no truncate/clear/pop/remove/drain/retain on RegexVec tables")
    # element writes to state_table
    elem_writers = set()
    for b in P.bodies.values():
        if not P._is_code(b):
            continue
        w, m, r = P.own_effects(b)
        if any(fld == (RV, "state_table") and c.endswith("index_mut") for fld, c in m) or \
           any(fld == (RV, "state_table") and c.endswith("::fill") for fld, c in m):
            elem_writers.add(b.id)
    exp = {RV + "::transition_inner", RV + "::new_with_exprset"}
    ctx.check(elem_writers <= exp and RV + "::transition_inner" in elem_writers, "C14-R3", "state_table:cell-writers",
              "state_table cells are written only by transition_inner (MISSING -> state) and construction",
              "state_table cells are written by %s" % sorted(elem_writers - exp))
    ti = ctx.body(RV + "::transition")
    ne = L.guard_edges_multi(ti, [
        (lambda e: (e[0] == "call" and e[1].endswith("::ne")) or (e[0] == "bin" and e[1] == "Ne"), False),
        (lambda e: (e[0] == "call" and e[1].endswith("::eq")) or (e[0] == "bin" and e[1] == "Eq"), True)])   # `== MISSING` spelling
    inner = ti.call_blocks(RV + "::transition_inner")
    still = L.dominated_by_cut(ti, inner, ne) if ne else inner
    ctx.check(bool(inner) and bool(ne) and not still, "C14-R3", "transition:compute-only-if-missing",
              "transition_inner runs only for a MISSING cell (existing entries are never recomputed)",
              "RegexVec::transition recomputes cells that are already filled", site=ti.where())
    # StateDesc memo fields: assigned only after an `is None` test in the same function
    SD = "llguidance::earley::regexvec::StateDesc"
    for fld in ("possible_lookahead_len", "lookahead_len", "next_byte"):
        for b, bi, r in L.assignments_to(P, SD, fld):
            e = b.expr_rvalue(r)
            some = e[0] == "agg" and isinstance(e[1], dict) and e[1].get("variant") == "Some"
            g = []
            for sb, se, targets, otherwise in b.switch_edges():
                if se[0] == "discr" and se[1][0] in ("place",) and F.place_fields(se[1][1])[-1:] == [(SD, fld)]:
                    for v, t in targets:
                        if v == 0:
                            g.append((sb, t))
                    if not any(v == 0 for v, _ in targets):
                        g.append((sb, otherwise))
            still = L.dominated_by_cut(b, [bi], g) if g else [bi]
            ctx.check(some and bool(g) and not still, "C14-R3", "memo-write-once:%s@%s" % (fld, b.id.rsplit("::", 1)[1]),
                      "StateDesc.%s is set to Some(..) only when it was None" % fld,
                      "%s overwrites the memo StateDesc.%s of a state shared with sibling clones" % (b.id, fld), site=b.where(bi))

    # ------------------------------------------------------------------ R4 Send / Sync by the trait solver
    for r in ROOTS + [PARSER]:
        a = P.adts.get(r, {}).get("auto")
        if a is None:
            ctx.violation("C14-R4", "auto-missing:" + r, "no auto-trait fact for %s (generic type?)" % r)
            continue
        ctx.check(a.get("send") is True, "C14-R4", "Send:" + r, "%s: Send (trait solver)" % r.rsplit("::", 1)[1],
                  "%s is no longer Send: an engine cannot be moved to another thread" % r)
    for r in ("llguidance::factory::ParserFactory", PARSER, "llguidance::tokenparser::TokenParser"):
        a = P.adts.get(r, {}).get("auto") or {}
        ctx.check(a.get("sync") is True, "C14-R4", "Sync:" + r, "%s: Sync" % r.rsplit("::", 1)[1], "%s is no longer Sync" % r)

    # ------------------------------------------------------------------ R6 per-step budgets of the shared lexer come from the engine's own limits
    # clones share one lexer; its work budget (fuel, max states) is re-armed per step.  The budget must be a function of the
    # calling engine's configuration only — if it is computed from the shared lexer's running totals (total_fuel_spent,
    # stats.lexer_cost snapshots) a clone's result depends on how much its siblings have been using the lexer
    RVEC = "llguidance::earley::regexvec::RegexVec"
    LIM = "llguidance::api::ParserLimits"
    n_b = 0
    for setter in ("set_fuel", "set_max_states"):
        for c in sorted(P.callers_of(RVEC + "::" + setter)):
            cb_ = P.bodies.get(c)
            if cb_ is None:
                continue
            for bi in cb_.call_blocks(RVEC + "::" + setter):
                n_b += 1
                a = cb_.blocks[bi]["term"]["args"][1]
                r = L.role(cb_, a, depth=14)
                e = cb_.expr(a)
                fs = F.place_fields(e[1]) if e[0] in ("place", "ref") else []
                from_limits = bool(re.fullmatch(r"(call:clone\()?&?param:\d+(\.\*)*(\.limits)?\)?(\.\*)*\.[a-z_]+", r)) and not any(
                    x in r for x in ("total_fuel_spent", "lexer_cost", "stats", "Sub", "Add", "saturating"))
                ctx.check(from_limits, "C14-R6", "lexer-budget-from-own-limits:%s@%s" % (setter, c.rsplit("::", 1)[1]),
                          "%s(%s)" % (setter, r),
                          "%s arms the shared lexer with `%s`, which is not a plain field of the engine's own limits: a budget derived from "
                          "the shared lexer's counters makes a clone's mask depend on its siblings' activity" % (c, r), site=cb_.where(bi))
    ctx.floor("C14-R6", "budget setters of the shared lexer", n_b, 3)

    # ------------------------------------------------------------------ R5 batch API
    if ctx.config == "default":
        inner = None
        for i, b in P.bodies.items():
            if i.startswith("llguidance::ffi_par::par_compute_mask_inner::{closure#0}") and i.count("{closure") == 1:
                inner = b
        if inner is None:
            ctx.violation("C14-R5", "anchor-missing:par_compute_mask_inner::{closure#0}", "rayon task closure not found")
        else:
            bodies = [inner] + [P.bodies[c] for c in P.bodies if c.startswith(inner.id + "::{closure")]
            n = 0
            for b in bodies:
                for bi, si, st in b.statements():
                    if st["s"] != "assign":
                        continue
                    r = st["r"]
                    # &mut *ptr : deref of a raw pointer
                    if r["rv"] == "ref" and len(r["p"]) >= 2 and r["p"][1] == "*":
                        base_ty = b.local_ty(r["p"][0])
                        if base_ty.startswith("*mut") or base_ty.startswith("*const"):
                            n += 1
                            e = b.expr_place([r["p"][0]])
                            txt = repr(e)
                            ok = "'n': 'constraint'" in txt or "step.constraint" in txt
                            ctx.check(ok, "C14-R5", "task-derefs-own-constraint@%s" % b.where(bi).rsplit(":", 1)[1],
                                      "the raw deref is of this task's step.constraint",
                                      "a rayon task dereferences %s, not its own step.constraint" % F.fmt_expr(e), site=b.where(bi))
            ctx.floor("C14-R5", "raw constraint derefs in the rayon task", n, 2)
            # null check dominates
            g = L.guard_edges(inner, lambda e: e[0] == "call" and e[1].endswith("::is_null"), False)
            cu = [bi for bi, t in inner.calls() if t["f"].get("def", "").endswith("panic_utils::catch_unwind")]
            still = L.dominated_by_cut(inner, cu, g) if g else cu
            ctx.check(bool(cu) and bool(g) and not still, "C14-R5", "task-null-check", "step.constraint.is_null() is checked before any use",
                      "the rayon task uses step.constraint without a null check", site=inner.where())
