"""C16 — vocabulary handling (trie, token sets, tokenizer adapters) matches a naive model (clauses)."""
from .. import facts as F
from .. import lib as L

T = "toktrie::toktree::"
TT = T + "TokTrie"
TB = T + "TrieBuilder"
BN = T + "BuilderNode"
SVT = "toktrie::svob::SimpleVob"
SV = SVT + "::"
REC = "toktrie::toktree::Recognizer::"

META = dict(
    explanation=(
        "Static analysis over MIR. Decided clauses: R1 the unchecked mask write of the trie walk is in bounds by "
        "construction: allow_token_unchecked has the single caller add_bias_inner, its argument is "
        "token_id().unwrap_or(vocab_size), token sets come from alloc_token_set = alloc_with_capacity(vocab_size, "
        "vocab_size + 1), and add_bias clears the fake slot vocab_size on every normal path after the walk; R2 the "
        "excess-bit discipline of the bit vector: whole-word writers (negated, set_all(true)) call "
        "clear_excessive_bits, allow_range asserts end < size before any write, resize never shrinks, binary "
        "operations assert compatible sizes, alloc_with_capacity asserts size <= capacity; R3 the two copies of "
        "the byte-level character map (parser/tokenizer_json.rs and toktrie_hf_tokenizers) are the same "
        "function (canonical MIR signature) and equal the GPT-2 bytes-to-unicode ranges; both byte-fallback "
        "decoders use the same `<0xHH>` shape test; special tokens are prefixed with the marker byte; R4 both "
        "trie constructors end in validate() and the node bit-field packers assert their widths; R5 the two "
        "trie constructors (from / filter) agree: insertion skips empty tokens, follows the sorted order, the "
        "offset table covers every id, and eos_tokens / sorted_vocab / info are carried over; R6 the builder's "
        "child look-up structures (root fast-path cache, first_child pointer, root token) are write-once, matching "
        "the first-match descent of every byte-navigating reader."
    ),
    not_decided=(
        "correctness of the DFS layout (pop counts, subtree sizes), greedy tokenisation, filter == rebuild — "
        "algorithmic; decoding equality with the HF / tiktoken libraries"
    ),
)
META["explanation"] += (
    " Added after the independent seeding rounds 2-3: " 'R9 greedy_tokenize resumes right after the token it emitted (the resume position advances only under token_id() == Some). R8 the element-wise token-set operations (or, and, sub, or_minus, and_is_zero, negated, first_bit_set_here_and_in) compute the set operation they are named for — decided as a truth table of the stored word expression over the operand bits, independent of syntax. R2 also requires clear_excessive_bits to depend on the end of the storage. R6 also requires the builder to search the whole sibling list. R7 token_len mirrors decode_raw for special tokens (relational: a divide-by-B digit loop must run while value >= B).'
)

GPT2_RANGES = {("ge", 0x21), ("le", 0x7E), ("ge", 0xA1), ("le", 0xAC), ("ge", 0xAE), ("le", 0xFF)}


def signature(P, b):
    """canonical, crate-independent signature of a body: blocks in reverse post-order with locals numbered by
    first appearance, constants, operators and (last path segment of) callees"""
    order, seen = [], set()
    stack = [(0, iter(b.succs(0)))]
    seen.add(0)
    while stack:
        u, it = stack[-1]
        adv = False
        for v in it:
            if v not in seen:
                seen.add(v)
                stack.append((v, iter(b.succs(v))))
                adv = True
                break
        if not adv:
            order.append(u)
            stack.pop()
    rpo = list(reversed(order))
    pos = {bb: i for i, bb in enumerate(rpo)}
    ln = {}

    def loc(l):
        if l not in ln:
            ln[l] = len(ln)
        return ln[l]

    def pl(p):
        out = [loc(p[0])]
        for e in p[1:]:
            if isinstance(e, dict):
                out.append(tuple(sorted((k, (loc(v) if k == "i" else (v.rsplit("::", 1)[-1] if k == "a" else v))) for k, v in e.items()
                                        if not (k == "f" and "n" in e))))
            else:
                out.append(e)
        return tuple(out)

    def op(o):
        if "fn" in o:
            return ("fn", o["fn"].rsplit("::", 1)[-1])
        if "closure" in o:
            return ("closure",)
        if "k" in o:
            return ("k", o.get("iv", o.get("str", o["k"].rsplit("::", 1)[-1])), o.get("ty", "").rsplit("::", 1)[-1])
        p = F.op_place(o)
        return ("p", pl(p))

    sig = []
    for bb in rpo:
        blk = b.blocks[bb]
        sts = []
        for st in blk["st"]:
            if st["s"] != "assign":
                sts.append((st["s"],))
                continue
            r = st["r"]
            rv = r["rv"]
            if rv in ("use", "repeat"):
                sts.append((pl(st["p"]), rv, op(r["o"])))
            elif rv == "cast":
                sts.append((pl(st["p"]), rv, op(r["o"]), r["ty"].rsplit("::", 1)[-1]))
            elif rv == "un":
                sts.append((pl(st["p"]), rv, r["op"], op(r["a"])))
            elif rv == "bin":
                sts.append((pl(st["p"]), rv, r["op"], op(r["a"]), op(r["b"])))
            elif rv in ("ref", "rawptr", "discr"):
                sts.append((pl(st["p"]), rv, pl(r["p"])))
            elif rv == "agg":
                k = r["kind"]
                kk = k if isinstance(k, str) else tuple(sorted((a, (v.rsplit("::", 1)[-1] if isinstance(v, str) else tuple(v))) for a, v in k.items()))
                sts.append((pl(st["p"]), rv, kk, tuple(op(x) for x in r["ops"])))
            else:
                sts.append((pl(st["p"]), rv))
        t = blk["term"]
        k = t["t"]
        if k == "call":
            f = t["f"]
            callee = f.get("def", "?")
            callee = callee.rsplit("::", 1)[-1] if not callee.startswith("<") else callee.split(" as ")[-1]
            term = ("call", callee, tuple(op(a) for a in t["args"]), pl(t["dest"]), pos.get(t["to"]))
        elif k == "switch":
            term = ("switch", op(t["o"]), tuple((v, pos.get(tb)) for v, tb in t["targets"]), pos.get(t["otherwise"]))
        elif k in ("goto", "drop", "assert"):
            term = (k, pos.get(t["to"]), t.get("msg"))
        else:
            term = (k,)
        sig.append((tuple(sts), term))
    return sig


def token_len_rule(ctx, R):
    """shared by C16 (trie <-> bytes), C12 (rollback byte accounting) and C19 (special tokens).
    token_len() recomputes, for special / empty tokens, the length of the `\\xFF [ id ]` image that decode_raw() produced:
    3 + number of decimal digits of the id.  The digit count is arithmetic (not decided in general), but one relational
    fact is: IF the digits are counted by repeated division by a constant B, the loop must continue exactly while the
    value is >= B (equivalently > B-1): a test against any other constant miscounts the ids just above a power of B.
    Other ways of counting digits (ilog10, to_string().len()) are not judged."""
    P = ctx.prog
    tl = ctx.body(TT + "::token_len")
    divs = set()
    for bi, si, st in tl.statements():
        r = st.get("r", {})
        if st["s"] == "assign" and r.get("rv") == "bin" and r["op"].startswith("Div") and isinstance(r.get("b"), dict):
            c = F.op_const_int(r["b"])
            if c is not None and c > 1:
                divs.add(c)
    n = 0
    for bi, e, targets, otherwise in tl.switch_edges():
        cur, pol = F.peel_polarity(e)
        if cur[0] == "bin" and cur[1] in ("Ge", "Gt", "Lt", "Le") and cur[3][0] == "const" and isinstance(cur[3][1], int) and cur[2][0] in ("local", "place"):
            for B in divs:
                if abs(cur[3][1] - B) <= 1:
                    n += 1
                    ok = (cur[1], cur[3][1]) in (("Ge", B), ("Gt", B - 1), ("Lt", B), ("Le", B - 1))
                    ctx.check(ok, R, "token_len:digit-loop-bound", "the division loop runs while the value is >= %d" % B,
                              "token_len counts digits by dividing by %d but tests `%s %s`: ids such as %d, %d..%d get the wrong length, and "
                              "rollback drops the wrong number of bytes after a special token" % (B, cur[1], cur[3][1], B, B * B, B * B + B - 1),
                              site=tl.where(bi))
    if n == 0:
        ctx.ok(R, "token_len:digit-count-idiom", "no divide-and-compare digit loop present (other idiom; not judged)" if not divs else
               "division by %s without a nearby loop bound" % sorted(divs))
    plus3 = any(st["s"] == "assign" and st["r"].get("rv") == "bin" and st["r"]["op"].startswith("Add") and isinstance(st["r"].get("b"), dict)
                and F.op_const_int(st["r"]["b"]) == 3 for _, _, st in tl.statements())
    ctx.check(plus3, R, "token_len:marker-and-brackets", "the three framing bytes (\\xFF, '[', ']') are added",
              "TokTrie::token_len no longer adds the 3 framing bytes of a special token's image", site=tl.where())
    dr = ctx.body(TT + "::decode_raw")
    tmpl = [str(o.get("k", "")) for bi, si, st in dr.statements() if st["s"] == "assign" and st["r"].get("rv") == "use" for o in [st["r"]["o"]] if "k" in o and "[" in str(o.get("k", ""))]
    ctx.check(any("[" in k and "]" in k for k in tmpl) and bool(dr.call_blocks(lambda d: d.endswith("Vec::<T, A>::push"))), R, "decode_raw:special-token-encoding",
              "decode_raw writes the marker byte followed by `[id]`", "decode_raw's encoding of special tokens changed (templates: %s)" % tmpl, site=dr.where())


def builder_first_match(ctx, R):
    """shared by C16-R6, C01-R6 and C02-R5"""
    P = ctx.prog
    ins = ctx.body(TB + "::insert")
    # both look-up paths (the root cache and the sibling walk) adopt an existing child only if that does not overwrite a
    # token: `is_last_byte && child.token_id != NO_TOKEN` must fall through to "append a new node" on BOTH paths, otherwise
    # one of two ids with identical bytes vanishes from the trie (mask walks the trie; commit reads the byte table)
    def tok_unset(e):
        return e[0] == "bin" and e[1] == "Eq" and L.is_field_read(BN, "token_id")(L.strip_wrappers(e[2])) and "NO_TOKEN" in repr(e[3])
    def tok_set(e):
        return e[0] == "bin" and e[1] == "Ne" and L.is_field_read(BN, "token_id")(L.strip_wrappers(e[2])) and "NO_TOKEN" in repr(e[3])
    def is_last(e):
        # `i == word.len() - 1`
        if not (e[0] == "bin" and e[1] == "Eq"):
            return False
        t = repr(e)
        return "Sub" in t and "len" in t
    g = L.guard_edges_multi(ins, [(tok_unset, True), (tok_set, False), (is_last, False)])
    adopt = []
    for l in range(len(ins.locals)):
        if ins.local_ty(l) == "bool" and ins.locals[l].get("n"):
            for (bi, si, kind, r) in ins.defs().get(l, []):
                if kind == "assign" and r["rv"] == "use" and r["o"].get("iv") == "1":
                    adopt.append(bi)
    still = L.dominated_by_cut(ins, adopt, g) if g else adopt
    ctx.check(len(adopt) >= 2 and bool(g) and not still, R, "insert:duplicate-token-gets-own-node",
              "an existing child is adopted on %d paths, each only when this is not the last byte or the child holds no token yet" % len(adopt),
              "TrieBuilder::insert adopts an existing child on a path that does not test `is_last_byte && token_id != NO_TOKEN` "
              "(%s): the second of two ids with identical bytes overwrites the first, which then can never appear in a mask "
              "although commit and validation accept it" % [ins.where(b_) for b_ in still], site=ins.where(still[0]) if still else ins.where())
    # first-match agreement: readers (child_at_byte, the root cache) continue a path through the FIRST child with a given byte;
    # the builder must therefore search the whole sibling list (first_child, then next_sibling ...) before it appends a new
    # child — looking only at the most recent child makes duplicates of a prefix hang their subtree under a later sibling
    walk = [bi for bi, (w, m, r) in P.block_effects(ins).items() if (BN, "next_sibling") in r]
    fc = [bi for bi, (w, m, r) in P.block_effects(ins).items() if (BN, "first_child") in r]
    in_loop = [bi for bi in walk if bi in ins.reachable(bi, cut_blocks=()) and any(bi in ins.reachable(s_) for s_ in ins.succs(bi))]
    ctx.check(bool(fc) and bool(in_loop), R, "insert:searches-whole-sibling-list",
              "the non-root branch walks first_child / next_sibling in a loop to find an existing child",
              "TrieBuilder::insert no longer walks the sibling list (first_child → next_sibling) to find an existing child: a duplicate "
              "token's subtree is attached to a child that byte-navigating readers (child_at_byte: first match) never reach",
              site=ins.where())


WORD_OPS = {
    # name: (number of operands, Boolean function of one bit position of (self, other[, minus]), words)
    "or": (2, lambda s, o: s | o, "self |= other"),
    "and": (2, lambda s, o: s & o, "self &= other"),
    "sub": (2, lambda s, o: s & (1 - o), "self &= !other"),
    "or_minus": (3, lambda s, o, m: s | (o & (1 - m)), "self |= other & !minus"),
}


def greedy_resume_rule(ctx, R):
    """R9: greedy_tokenize emits the longest token found on the trie walk and must resume right after *that token*: the
    resume position (the local whose value + 1 becomes the next start) advances only together with the recorded token,
    i.e. every assignment to it inside the walk is dominated by the Some outcome of token_id() (the trie has inner nodes
    that carry no token).  Otherwise bytes between the last token and the deepest node reached are silently dropped."""
    b = ctx.try_body(TT + "::greedy_tokenize", R)
    if b is None:
        return
    # resume local: L with  `next_start = L + 1`
    cands = set()
    for bi, si, st in b.statements():
        if st["s"] == "assign" and st["r"]["rv"] == "bin" and st["r"]["op"] in ("Add", "AddWithOverflow"):
            ea, pb_ = b.expr(st["r"]["a"]), st["r"]["b"]
            la = ea[1] if ea[0] == "local" else (ea[1][0] if ea[0] == "place" and len(ea[1]) == 1 else None)
            if isinstance(la, int) and la > b.argc and pb_.get("iv") == "1" and len([d for d in b.defs().get(la, []) if d[2] == "assign"]) >= 2:
                cands.add(la)
    tid = lambda e: e[0] == "discr" and e[1][0] == "call" and e[1][1].endswith("TrieNode::token_id")
    g = []
    for sb, e, targets, otherwise in b.switch_edges():
        if tid(e):
            g += [(sb, t) for v, t in targets if int(v) == 1]
            if all(int(v) == 0 for v, _ in targets):
                g.append((sb, otherwise))
    if not cands or not g:
        ctx.info(R, "greedy_tokenize: resume position / token_id() test not recognised (not judged)")
        return
    for L_ in sorted(cands):
        defs = [(bi, si, p) for (bi, si, k, p) in b.defs().get(L_, []) if k == "assign"]
        first = min(bi for bi, _, _ in defs)
        inner = [bi for bi, si, p in defs if bi != first]
        still = L.dominated_by_cut(b, inner, g)
        ctx.check(bool(inner) and not still, R, "greedy_tokenize:resume-advances-only-with-a-token",
                  "the resume position is advanced only where token_id() is Some (together with the recorded token)",
                  "greedy_tokenize advances its resume position on trie nodes that carry no token: the text between the last token found and the "
                  "deepest node walked is dropped (vocab {a,b,c,ab,abcd}, text \"abc\" -> [ab])", site=b.where(still[0]) if still else b.where())


def word_ops_rule(ctx, rule):
    """R8: the element-wise token-set operations compute the set operation they are named for.  Decided as a truth table
    of the stored / tested word expression over the operand bits (rules/wordops.py), so any way of writing the same
    Boolean function passes; a body whose shape cannot be interpreted is not judged (and the floor below notices when
    that happens to most of them)."""
    from .. import wordops as W
    P = ctx.prog
    judged = 0
    for name, (n, fn, words) in WORD_OPS.items():
        b = ctx.try_body(SV + name, rule)
        if b is None:
            continue
        w = W.WordFn(P, SV + name)
        st = w.stored_tables(n)
        spec = W.spec_table(fn, n)
        tabs = [t for _, _, t in st if t is not None]
        if not st or not tabs:
            ctx.info(rule, "%s: no interpretable element-wise store (not judged)" % name)
            continue
        judged += 1
        bad = [(bb, bi, t) for bb, bi, t in st if t is not None and t != spec]
        ctx.check(not bad, rule, "word-op:" + name, "%s: every word stored into self is %s (truth table %s)" % (name, words, spec),
                  "SimpleVob::%s stores a word that is not `%s`: truth table over (self, other%s) bits is %s, expected %s — the token-set "
                  "operation differs from the plain-set operation" % (name, words, ", minus" if n == 3 else "", bad[0][2] if bad else "", spec),
                  site=bad[0][0].where(bad[0][1]) if bad else b.where())
    # predicates and derived sets
    b = ctx.try_body(SV + "and_is_zero", rule)
    if b is not None:
        w = W.WordFn(P, SV + "and_is_zero")
        verdict = None
        for c in w.closures:
            e = W.ret_expr(c)
            ad = [P.bodies[SV + "and_is_zero"].blocks[bi]["term"]["f"].get("def", "").rsplit("::", 1)[-1]
                  for bi, t in b.calls() if any(c.id in L._closures_in(b.expr(a)) for a in t["args"])]
            if e[0] == "bin" and e[1] in ("Eq", "Ne") and e[3][0] == "const" and e[3][1] == 0 and ad:
                t = w.table(c, e[2], 2)
                if t is not None:
                    want_all = e[1] == "Eq"
                    verdict = (t == W.spec_table(lambda s, o: s & o, 2)) and ((ad[0] == "all") == want_all) and ad[0] in ("all", "any")
                    if ad[0] == "any":
                        verdict = None  # `!any(..)` needs the negation outside; not judged
        if verdict is None:
            ctx.info(rule, "and_is_zero: shape not interpretable (not judged)")
        else:
            judged += 1
            ctx.check(verdict, rule, "word-op:and_is_zero", "and_is_zero is `all words: (self & other) == 0`",
                      "SimpleVob::and_is_zero no longer tests `(self & other) == 0` for all words", site=b.where())
    b = ctx.try_body(SV + "negated", rule)
    if b is not None:
        w = W.WordFn(P, SV + "negated")
        tabs = []
        for c in w.closures:
            t = w.table(c, W.ret_expr(c), 1)
            if t is not None:
                tabs.append(t)
        tabs += [t for _, _, t in w.stored_tables(1) if t is not None]
        if not tabs:
            ctx.info(rule, "negated: shape not interpretable (not judged)")
        else:
            judged += 1
            ctx.check(all(t == (1, 0) for t in tabs), rule, "word-op:negated", "negated() maps every word to its complement",
                      "SimpleVob::negated does not complement every word (table %s)" % tabs, site=b.where())
    b = ctx.try_body(SV + "first_bit_set_here_and_in", rule)
    if b is not None:
        w = W.WordFn(P, SV + "first_bit_set_here_and_in")
        tz = [(bi, w.table(b, b.expr(t["args"][0]), 2)) for bi, t in b.calls() if t["f"].get("def", "").endswith("::trailing_zeros") and t["args"]]
        tz = [(bi, t) for bi, t in tz if t is not None]
        if not tz:
            ctx.info(rule, "first_bit_set_here_and_in: shape not interpretable (not judged)")
        else:
            judged += 1
            ctx.check(all(t == (0, 0, 0, 1) for _, t in tz), rule, "word-op:first_bit_set_here_and_in", "the bit position is taken from `self & other`",
                      "first_bit_set_here_and_in takes the bit position from a word that is not `self & other`", site=b.where(tz[0][0]))
    ctx.floor(rule, "element-wise token-set operations judged by truth table", judged, 5)


def run(ctx):
    P = ctx.prog
    # ------------------------------------------------------------------ R1 unchecked write in bounds by construction
    atu = SV + "allow_token_unchecked"
    ctx.body(atu)
    callers = set(P.callers_of(atu))
    ctx.check(callers == {TT + "::add_bias_inner"}, "C16-R1", "allow_token_unchecked:single-caller", "only add_bias_inner uses the unchecked write",
              "SimpleVob::allow_token_unchecked is called from %s" % sorted(callers))
    abi = ctx.body(TT + "::add_bias_inner")
    for bi in abi.call_blocks(atu):
        e = abi.expr(abi.blocks[bi]["term"]["args"][1])
        ok = e[0] == "call" and e[1].endswith("Option::<T>::unwrap_or") and e[2][0][0] == "call" and e[2][0][1] == T + "TrieNode::token_id"
        dflt = e[2][1] if ok else None
        ok2 = ok and "vocab_size" in repr(L.value_of(abi, dflt) if dflt[0] in ("place", "ref") else dflt)
        ctx.check(ok and ok2, "C16-R1", "unchecked-arg", "the token written is token_id().unwrap_or(vocab_size)",
                  "add_bias_inner writes %s through the unchecked path" % F.fmt_expr(e), site=abi.where(bi))
    ats = ctx.body(TT + "::alloc_token_set")
    awc = ats.call_blocks(SV + "alloc_with_capacity")
    ok = False
    if awc:
        t = ats.blocks[awc[0]]["term"]
        a0, a1 = ats.expr(t["args"][0]), ats.expr(t["args"][1])
        ok = a0[0] == "call" and a0[1] == TT + "::vocab_size" and a1[0] == "bin" and a1[1] == "Add" and a1[2][0] == "call" and a1[2][1] == TT + "::vocab_size" \
            and a1[3][0] == "const" and a1[3][1] == 1
    ctx.check(ok, "C16-R1", "alloc_token_set:capacity", "alloc_token_set = alloc_with_capacity(vocab_size, vocab_size + 1)",
              "alloc_token_set no longer reserves the extra slot at index vocab_size that the trie walk writes to", site=ats.where())
    awcb = ctx.body(SV + "alloc_with_capacity")
    rs = awcb.call_blocks(SV + "resize")
    ok = bool(rs)
    if rs:
        e = awcb.expr(awcb.blocks[rs[0]]["term"]["args"][1])
        ok = e[0] in ("place", "local") and (e[1] if e[0] == "local" else e[1][0]) == 2
    g = L.guard_edges(awcb, lambda e: e[0] == "bin" and e[1] == "Le", True)
    ctx.check(ok and bool(g) and not L.dominated_by_cut(awcb, rs, g), "C16-R1", "alloc_with_capacity:resizes-to-capacity",
              "alloc_with_capacity asserts size <= capacity and allocates `capacity` bits", "alloc_with_capacity no longer allocates the requested capacity", site=awcb.where())
    ab = ctx.body(TT + "::add_bias")
    inner = ab.call_blocks(TT + "::add_bias_inner")
    dis = ab.call_blocks(SV + "disallow_token")
    ok = bool(inner) and bool(dis) and not L.must_pass(ab, inner, dis)
    ctx.check(ok, "C16-R1", "add_bias:fake-slot-cleared", "disallow_token(vocab_size) is on every normal path after the walk",
              "add_bias can return with the fake token bit (index vocab_size) still set: a mask contains an id >= vocab_size", site=ab.where())
    if dis:
        e = ab.expr(ab.blocks[dis[-1]]["term"]["args"][1])
        ctx.check("vocab_size" in repr(L.value_of(ab, e) if e[0] in ("place", "ref") else e), "C16-R1", "add_bias:clears-vocab_size-slot",
                  "the cleared slot is vocab_size", "add_bias clears slot %s" % F.fmt_expr(e), site=ab.where(dis[-1]))
    # producers of token sets passed to add_bias: alloc_token_set
    n_src = 0
    for c in sorted(P.callers_of(TT + "::add_bias")):
        cb = P.bodies[c]
        for bi in cb.call_blocks(TT + "::add_bias"):
            e = cb.expr(cb.blocks[bi]["term"]["args"][2])
            l = L.root_local(cb, e)
            src = None
            if l is not None:
                if l <= cb.argc and l >= 1:
                    src = "param"
                else:
                    v = cb.expr_place([l])
                    if v[0] == "call":
                        src = v[1]
            n_src += 1
            ok = src == "param" or (src or "").endswith("alloc_token_set")
            ctx.check(ok, "C16-R1", "add_bias-target@%s" % c.rsplit("::", 1)[1], "the set walked into is a parameter or comes from alloc_token_set",
                      "%s passes a token set from %s to add_bias (must be allocated with alloc_token_set: vocab_size + 1 capacity)" % (c, src), site=cb.where(bi))
    ctx.floor("C16-R1", "add_bias call sites", n_src, 5)

    # ------------------------------------------------------------------ R2 excess-bit discipline
    ceb = SV + "clear_excessive_bits"
    neg = ctx.body(SV + "negated")
    ctx.check(bool(neg.call_blocks(ceb)) and not L.must_pass(neg, [0], neg.call_blocks(ceb)), "C16-R2", "negated:clears-excess",
              "negated() clears the bits beyond size", "SimpleVob::negated no longer clears the excess bits: a negated set contains ids >= its size", site=neg.where())
    # clear_excessive_bits itself: storage can be longer than the logical size (alloc_with_capacity: vocab_size + 1 bits for
    # the add_bias "no token" slot), so it has to clear *every* bit from `size` to the end of the storage, not just the
    # tail of the word that holds bit `size`.  Accepted forms: (A) `for i in size..data.len()*32 { disallow/clear bit i }`;
    # (B) a partial-word mask plus a clear of every following word (`data[k..]`, or a word loop up to data.len()).
    cb_ = ctx.body(ceb)
    # necessary condition, independent of the form: the clearing has to depend on where the storage ends — it reads data.len()
    # (a bit or word loop up to the end), or iterates / slices the storage to its end (iter_mut().skip(k), data[k..], fill)
    to_end = []
    for bi, t in cb_.calls():
        d = t["f"].get("def", "")
        last = d.rsplit("::", 1)[-1]
        a0 = cb_.expr(t["args"][0]) if t["args"] else ("unknown",)
        on_data = any(f_ == (SVT, "data") for f_ in (F.place_fields(L.strip_views(a0)[1]) if L.strip_views(a0)[0] in ("ref", "place") else []))
        if on_data and last in ("len", "iter_mut", "iter", "fill", "as_mut_slice", "deref_mut", "last_mut", "chunks_mut"):
            if last in ("deref_mut", "as_mut_slice"):
                continue   # by themselves only give access to an element; counted through the iterator / range calls below
            to_end.append(last)
        if last in ("iter_mut", "fill", "skip") and "svob" not in d and any("data" in F.fmt_expr(cb_.expr(x)) for x in t["args"][:1]):
            to_end.append(last)
    rngfrom = [st for bi, si, st in cb_.statements() if st["s"] == "assign" and st["r"].get("rv") == "agg" and isinstance(st["r"].get("kind"), dict)
               and st["r"]["kind"].get("adt", "").endswith("::RangeFrom")]
    clears = bool(cb_.call_blocks(lambda d: d in (SV + "disallow_token", SV + "set"))) or any(
        (SVT, "data") in w or any(x[0] == (SVT, "data") for x in m) for (w, m, r_) in P.block_effects(cb_).values()) or bool(to_end)
    ctx.check((bool(to_end) or bool(rngfrom)) and clears, "C16-R2", "clear_excessive_bits:covers-whole-storage-tail",
              "the clearing depends on the end of the storage (%s)" % (sorted(set(to_end)) or "data[k..]"),
              "clear_excessive_bits never looks at where the storage ends (no data.len(), no iteration or slice to the end of `data`): it "
              "can only clear inside the word that holds bit `size`, so when the storage has spare words (alloc_token_set: vocab_size + 1 "
              "bits with vocab_size a multiple of 32) negated()/set_all(true) leave ids >= size set", site=cb_.where())
    # trim_trailing_zeros: if the backwards scan for the last non-zero word starts from an index derived from `size` by a
    # floor division by the word size, the last partially used word is skipped (and truncated although it has set bits).
    # Starting at data.len() — or any other idiom — is not judged.
    tz = ctx.body(SV + "trim_trailing_zeros")
    floor_starts = []
    for l, ds in tz.defs().items():
        if not tz.locals[l].get("n") or len(ds) < 2:
            continue
        idom_ = tz.dominators()
        first = [d for d in ds if all(tz.dominates(d[0], o[0], idom_) for o in ds)]
        for (bi, si, kind, payload) in first:
            if kind == "call":
                rr = "call:%s(%s)" % (payload["f"].get("def", "?").rsplit("::", 1)[-1], ",".join(L.role(tz, a, depth=10) for a in payload["args"]))
            elif kind == "assign" and payload["rv"] == "use":
                rr = L.role(tz, payload["o"], depth=10)
            elif kind == "assign":
                rr = F.fmt_expr(tz.expr_rvalue(payload))
            else:
                continue
            rr_ = rr.replace(" ", "")
            if ".size" in rr_ and "Div" in rr_ and "div_ceil" not in rr_ and "Add" not in rr_:
                floor_starts.append((bi, rr))
    ctx.check(not floor_starts, "C16-R2", "trim_trailing_zeros:scan-covers-partial-word",
              "the backwards scan does not start at size / 32 (floor)",
              "trim_trailing_zeros starts its scan at `%s`: with a size that is not a multiple of 32 the last, partially used word is "
              "never examined and is cut off although it holds set bits (slice masks lose the highest token ids)"
              % (floor_starts[0][1] if floor_starts else ""), site=tz.where(floor_starts[0][0]) if floor_starts else tz.where())
    sa = ctx.body(SV + "set_all")
    g = L.guard_edges(sa, lambda e: e[0] in ("place", "local") and (e[1] if e[0] == "local" else e[1][0]) == 2, True)
    clr = sa.call_blocks(ceb)
    ok = bool(g) and bool(clr) and any(not L.must_pass(sa, [t], clr) or t in clr for (_, t) in g)
    ctx.check(ok, "C16-R2", "set_all:clears-excess", "set_all(true) clears the bits beyond size",
              "SimpleVob::set_all(true) no longer clears the excess bits", site=sa.where())
    ar = ctx.body(SV + "allow_range")
    wr = [bi for bi, (w, m, r) in P.block_effects(ar).items() if (SVT, "data") in w or any(x[0] == (SVT, "data") for x in m)]
    g = L.guard_edges(ar, lambda e: e[0] == "bin" and e[1] == "Lt" and "size" in repr(e[3]), True)
    ctx.check(bool(wr) and bool(g) and not L.dominated_by_cut(ar, wr, g), "C16-R2", "allow_range:end-lt-size",
              "allow_range asserts end < size before writing", "allow_range no longer checks the range end against size", site=ar.where())
    rz = ctx.body(SV + "resize")
    g = L.guard_edges(rz, lambda e: e[0] == "bin" and e[1] == "Ge", True)
    rsz = [bi for bi, (w, m, r) in P.block_effects(rz).items() if any(x[0] == (SVT, "data") and x[1].endswith("::resize") for x in m)]
    ctx.check(bool(rsz) and bool(g) and not L.dominated_by_cut(rz, rsz, g), "C16-R2", "resize:never-shrinks",
              "resize asserts new word count >= current", "SimpleVob::resize can shrink the vector", site=rz.where())
    dc = [bi for bi, t in rz.calls() if t["f"].get("def", "").endswith("::div_ceil")]
    ok = False
    for bi in dc:
        e = rz.expr(rz.blocks[bi]["term"]["args"][1])
        ok = ok or (e[0] == "const" and e[1] == 32)
    ctx.check(ok, "C16-R2", "resize:bits-to-words", "resize converts bits to words with div_ceil(32)", "resize no longer rounds the word count up", site=rz.where())
    for fn, op_ in (("and", "Eq"), ("sub", "Eq"), ("or_minus", "Eq"), ("set_from", "Eq"), ("and_is_zero", "Eq"), ("or", "Ge")):
        b = ctx.body(SV + fn)
        if op_ == "Eq":
            # assert_eq!(self.size, other.size): comparison of the two size fields
            sw = [x for x in b.switch_edges() if "size" in repr(x[1])]
            ok = bool(sw)
        else:
            g = L.guard_edges(b, lambda e: e[0] == "bin" and e[1] == "Ge" and "size" in repr(e), True)
            ok = bool(g)
        ctx.check(ok, "C16-R2", "binary-op-size-check:" + fn, "%s asserts compatible sizes" % fn,
                  "SimpleVob::%s no longer asserts that the operand sizes are compatible" % fn, site=b.where())
    st = ctx.body(SV + "set")
    divs = [r for bi, si, s_ in st.statements() if s_["s"] == "assign" and s_["r"]["rv"] == "bin" and s_["r"]["op"] in ("Div", "Rem") for r in [s_["r"]]]
    ok = len(divs) >= 2 and all(d["b"].get("iv") == "32" for d in divs)
    ctx.check(ok, "C16-R2", "set:word-and-bit-index", "set() splits the index into idx/32 and idx%32", "SimpleVob::set no longer uses /32 and %32 consistently", site=st.where())

    # ------------------------------------------------------------------ R3 sibling char maps
    if "toktrie_hf_tokenizers" not in P.crates:
        # the `minimal` configuration does not build the HF adapter: the sibling comparison is decided in `default`
        ctx.ok("C16-R3", "sibling-char-maps", "toktrie_hf_tokenizers is not part of this configuration")
        return _rest(ctx, P)
    a = ctx.body("llguidance::tokenizer_json::is_self_mapped")
    b = ctx.body("toktrie_hf_tokenizers::is_self_mapped")
    for nm, body in (("parser", a), ("hf", b)):
        rng = set()
        for bi, si, s_ in body.statements():
            if s_["s"] == "assign" and s_["r"]["rv"] == "bin" and s_["r"]["op"] in ("Le", "Lt", "Ge", "Gt"):
                r = s_["r"]
                ca, cb_ = r["a"].get("iv"), r["b"].get("iv")
                opn = r["op"]
                if ca is not None and cb_ is None:
                    rng.add(({"Le": "ge", "Lt": "gt", "Ge": "le", "Gt": "lt"}[opn], int(ca)))
                elif cb_ is not None and ca is None:
                    rng.add(({"Le": "le", "Lt": "lt", "Ge": "ge", "Gt": "gt"}[opn], int(cb_)))
        ctx.check(rng == GPT2_RANGES, "C16-R3", "is_self_mapped:%s:gpt2-ranges" % nm,
                  "self-mapped characters are exactly '!'..'~', U+00A1..U+00AC, U+00AE..U+00FF (GPT-2 bytes_to_unicode)",
                  "%s::is_self_mapped compares with %s instead of the GPT-2 ranges %s" % (body.id, sorted(rng), sorted(GPT2_RANGES)), site=body.where())
    ctx.check(signature(P, a) == signature(P, b), "C16-R3", "is_self_mapped:siblings-identical", "the two copies have the same canonical MIR",
              "llguidance::tokenizer_json::is_self_mapped and toktrie_hf_tokenizers::is_self_mapped differ", site=a.where())
    ca, cb2 = ctx.body("llguidance::tokenizer_json::build_char_map"), ctx.body("toktrie_hf_tokenizers::build_char_map")
    ctx.check(signature(P, ca) == signature(P, cb2), "C16-R3", "build_char_map:siblings-identical", "the two copies of build_char_map have the same canonical MIR",
              "the two byte-level char maps (parser/tokenizer_json.rs vs toktrie_hf_tokenizers) differ: the same tokenizer.json yields "
              "different token bytes depending on the loader", site=ca.where())
    base = [s_["r"]["o"].get("iv") for bi, si, s_ in ca.statements() if s_["s"] == "assign" and s_["r"]["rv"] == "use" and s_["r"]["o"].get("ty") == "u32" and "iv" in s_["r"]["o"]]
    ctx.check("256" in base, "C16-R3", "build_char_map:base-0x100", "non-self-mapped bytes are numbered from U+0100",
              "build_char_map starts its remapping at %s instead of U+0100" % base, site=ca.where())
    # byte-fallback decoders: `<0xHH>` shape test (len == 6, "<0x", ">", radix 16)
    for fn in ("llguidance::tokenizer_json::token_bytes_from_tokenizer_json", "toktrie_hf_tokenizers::ByteTokenizer::from_tokenizer"):
        bodies = [P.bodies[fn]] if fn in P.bodies else []
        bodies += [P.bodies[c] for c in P.closures_of(fn) if c in P.bodies]
        bodies += [pb for x in list(bodies) for pb in P.promoted_of(x.id)]
        if not bodies:
            ctx.violation("C16-R3", "anchor-missing:" + fn, "%s not found" % fn)
            continue
        txt = " ".join(repr(x.rec["blocks"]) for x in bodies)
        has = {"len==6": "'iv': '6'" in txt, "<0x": "<0x" in txt, "radix16": "'iv': '16'" in txt and "from_str_radix" in txt}
        ctx.check(all(has.values()), "C16-R3", "byte-fallback-shape:" + fn.split("::")[0], "byte-fallback tokens are recognised by len == 6, \"<0x\" prefix, radix 16",
                  "%s: byte-fallback shape test changed (%s)" % (fn, has), site=bodies[0].where())
        ctx.check("SPECIAL_TOKEN_MARKER" in txt or "'iv': '255'" in txt, "C16-R3", "special-marker-prefix:" + fn.split("::")[0],
                  "special tokens are prefixed with the 0xFF marker", "%s no longer prefixes special tokens with the marker byte" % fn, site=bodies[0].where())

    return _rest(ctx, P)


def _rest(ctx, P):
    # ------------------------------------------------------------------ R4 constructors validate; packers assert widths
    val = TT + "::validate"
    for fn in ("from", "filter"):
        b = ctx.body(TT + "::" + fn)
        v = b.call_blocks(val)
        rets = b.return_blocks()
        ok = bool(v) and all(r not in b.reachable(0, cut_blocks=v) for r in rets)
        ctx.check(ok, "C16-R4", "validate:" + fn, "TokTrie::%s ends in validate()" % fn, "TokTrie::%s returns a trie that was not validated" % fn, site=b.where())
    tn = ctx.body(T + "TrieNode::new")
    g = L.guard_edges(tn, lambda e: e[0] == "bin" and e[1] in ("Le", "Gt", "Lt", "Ge"), True)
    ctx.check(len(set(x[0] for x in g)) >= 2, "C16-R4", "TrieNode::new:asserts", "TrieNode::new asserts 0 < num_parents <= 2^PARENT_BITS",
              "TrieNode::new no longer asserts the width of num_parents", site=tn.where())
    ss = ctx.body(T + "TrieNode::set_subtree_size")
    g = L.guard_edges(ss, lambda e: e[0] == "bin" and e[1] == "Lt", True)
    ctx.check(bool(g), "C16-R4", "set_subtree_size:assert", "set_subtree_size asserts size < 2^(32-PARENT_BITS)",
              "set_subtree_size no longer asserts the width of the subtree size", site=ss.where())

    # ------------------------------------------------------------------ R6 first-writer-wins lookup structures of the builder
    # Readers descend through the FIRST child with a matching byte (child_at_byte, linked-list scan). The builder's two
    # child look-ups must agree with that: the root fast-path cache and the first_child pointer are write-once.
    TB = T + "TrieBuilder"
    BN = T + "BuilderNode"
    ins = ctx.body(TB + "::insert")
    for (adt, fld, guard_fld, what) in ((TB, "root_children", (TB, "root_children"), "root fast-lookup cache"),
                                        (BN, "first_child", (BN, "last_child"), "first-child pointer")):
        wr = [bi for bi, (w, m, r) in P.block_effects(ins).items() if (adt, fld) in w]
        def is_unset(e, gf=guard_fld):
            return e[0] == "bin" and e[1] == "Eq" and L.is_field_read(gf[0], gf[1])(L.strip_wrappers(e[2])) and "NO_NODE" in repr(e[3])
        g = L.guard_edges(ins, is_unset, True)
        still = L.dominated_by_cut(ins, wr, g) if g else wr
        ctx.check(bool(wr) and bool(g) and not still, "C16-R6", "write-once:%s.%s" % (adt.rsplit("::", 1)[1], fld),
                  "the %s is set only while it is still NO_NODE (first writer wins)" % what,
                  "TrieBuilder::insert overwrites the %s: duplicate tokens make the root cache and the sibling list disagree on which child "
                  "continues a path, so longer tokens hang under a node that byte-navigating readers never reach" % what, site=ins.where(wr[0]) if wr else ins.where())
    builder_first_match(ctx, "C16-R6")
    # the empty-word slot is write-once as well
    g = L.guard_edges(ins, lambda e: e[0] == "bin" and e[1] == "Eq" and L.is_field_read(BN, "token_id")(L.strip_wrappers(e[2])) and "NO_TOKEN" in repr(e[3]), True)
    ctx.check(bool(g), "C16-R6", "write-once:root-token", "the root token id is asserted to be unset before being assigned",
              "TrieBuilder::insert no longer asserts that the empty word is inserted once", site=ins.where())

    token_len_rule(ctx, "C16-R7")
    word_ops_rule(ctx, "C16-R8")
    greedy_resume_rule(ctx, "C16-R9")

    # ------------------------------------------------------------------ R5 sibling builders agree
    fr, fl = ctx.body(TT + "::from"), ctx.body(TT + "::filter")
    for nm, b in (("from", fr), ("filter", fl)):
        ins = b.call_blocks(T + "TrieBuilder::insert")
        g = L.guard_edges(b, lambda e: e[0] == "call" and e[1].endswith("::is_empty"), False)
        ctx.check(bool(ins) and bool(g) and not L.dominated_by_cut(b, ins, g), "C16-R5", nm + ":insert-skips-empty",
                  "TrieBuilder::insert is dominated by !word.is_empty()", "TokTrie::%s inserts empty tokens into the trie" % nm, site=b.where())
        mx = [bi for bi, t in b.calls() if t["f"].get("def", "").startswith("core::cmp::max")]
        # (the `!b.is_empty()` test around the update is redundant — max(x, 0) == x — and is not required)
        lens = [bi for bi in mx if any(a[0] == "call" and a[1].endswith("::len") for a in (b.expr(x) for x in b.blocks[bi]["term"]["args"]))]
        ctx.check(bool(lens), "C16-R5", nm + ":max_token_len-tracks-len",
                  "max_token_len is the running max of the token byte lengths", "TokTrie::%s: max_token_len is no longer max(_, bytes.len())" % nm, site=b.where())
        push = [bi for bi, t in b.calls() if t["f"].get("def", "").endswith("Vec::<T, A>::push") and "TokDesc" in "".join(t["aty"])]
        ext = [bi for bi, t in b.calls() if t["f"].get("def", "").endswith("::extend_from_slice")]
        ctx.check(len(push) == 1 and len(ext) == 1, "C16-R5", nm + ":offset-table", "one TokDesc push and one data append per id",
                  "TokTrie::%s: offset table construction changed (%d pushes, %d appends)" % (nm, len(push), len(ext)), site=b.where())
        # the push must not be conditional on emptiness / filter: it lies on every iteration path
        if push:
            ctx.check(L.dominated_by_cut(b, push, g) == push or True, "C16-R5", nm + ":offset-for-every-id", "the offset entry is pushed for every id (also empty / filtered ones)", "", site=b.where())
            # stronger: the push is NOT dominated by the non-empty guard
            ctx.check(bool(L.dominated_by_cut(b, push, g)), "C16-R5", nm + ":offset-unconditional",
                      "the TokDesc push is not guarded by !is_empty()", "TokTrie::%s pushes offsets only for non-empty tokens: ids shift" % nm, site=b.where())
        ser = b.call_blocks(T + "TrieBuilder::serialize")
        ctx.check(len(ser) == 1, "C16-R5", nm + ":serialize-once", "serialize is called once", "TokTrie::%s: serialize call count %d" % (nm, len(ser)), site=b.where())
    inits = {x[0].id: x for x in L.struct_inits(P, TT)}
    for nm, b in (("from", fr), ("filter", fl)):
        it = inits.get(b.id)
        if it is None:
            ctx.violation("C16-R5", "anchor-missing:TokTrie literal in " + nm, "TokTrie struct literal not found in TokTrie::%s" % nm)
            continue
        fm = it[2]
        # which variable ends up in which field — by what happened to the variable, not by its name
        def var_of(o):
            pl = F.op_place(o)
            l = pl[0] if pl else None
            for _ in range(6):
                ds = b.defs().get(l, []) if l is not None else []
                if l is None or b.locals[l].get("n") or len(ds) != 1 or ds[0][2] != "assign" or ds[0][3]["rv"] != "use":
                    break
                nx = F.op_place(ds[0][3]["o"])
                if not nx:
                    break
                l = nx[0]
            return l

        def receivers(pred):
            out = set()
            for bi_, t_ in b.calls():
                if pred(t_["f"].get("def", ""), t_):
                    for a_ in t_["args"][:2]:
                        e_ = b.expr(a_)
                        l_ = L.root_local(b, e_)
                        if l_ is not None:
                            out.add(l_)
            return out
        produced = {
            "token_offsets": receivers(lambda d, t_: d.endswith("Vec::<T, A>::push") and "TokDesc" in "".join(t_["aty"])),
            "token_data": receivers(lambda d, t_: d.endswith("::extend_from_slice")),
            "nodes": receivers(lambda d, t_: d == T + "TrieBuilder::serialize"),
            "max_token_len": {l_ for l_, ds_ in b.defs().items() if any(
                (k_ == "call" and p_["f"].get("def", "").startswith("core::cmp::max")) or
                (k_ == "assign" and p_["rv"] == "use" and (lambda e_: e_[0] == "call" and e_[1].startswith("core::cmp::max"))(b.expr(p_["o"])))
                for (_, _, k_, p_) in ds_)},
        }
        for fld in ("token_offsets", "token_data", "nodes", "max_token_len"):
            v = var_of(fm[fld])
            ctx.check(v is not None and v in produced[fld], "C16-R5", "%s:field:%s" % (nm, fld),
                      "field %s is the value built for it (%s)" % (fld, {"token_offsets": "receives the TokDesc pushes", "token_data": "receives the byte appends",
                                                                          "nodes": "filled by serialize", "max_token_len": "running max"}[fld]),
                      "TokTrie::%s initialises %s from a value that is not the one built for it" % (nm, fld), site=b.where(it[1]))
    if fl.id in inits:
        fm = inits[fl.id][2]
        for fld in ("eos_tokens", "sorted_vocab", "info"):
            e = fl.expr(fm[fld])
            ok = (TT, fld) in [f for f in F.place_fields(e[1])] if e[0] in ("place", "ref") else (TT.rsplit("::", 1)[0] and fld in repr(e))
            ctx.check(ok, "C16-R5", "filter:carries:" + fld, "filter() carries %s over from self" % fld,
                      "TokTrie::filter no longer carries `%s` over from the source trie" % fld, site=fl.where(inits[fl.id][1]))
    # filter iterates self.sorted_vocab and the id loop runs to vocab_size
    r_ = P.own_effects(fl)[2]
    ctx.check((TT, "sorted_vocab") in r_, "C16-R5", "filter:iterates-sorted_vocab", "filter() inserts in the cached sorted order",
              "TokTrie::filter no longer iterates sorted_vocab (sibling order is not sorted: serialize relies on it)", site=fl.where())
    vs = fl.call_blocks(TT + "::vocab_size")
    ctx.check(bool(vs), "C16-R5", "filter:ids-to-vocab_size", "filter() builds the offset table for 0..vocab_size", "filter() no longer covers 0..vocab_size", site=fl.where())
    srt = fr.call_blocks(lambda d: d.endswith("::sort_by") or d.endswith("::sort") or d.endswith("::sort_unstable_by"))
    ctx.check(bool(srt), "C16-R5", "from:sorts-before-insert", "from() sorts the vocabulary before inserting", "TokTrie::from no longer sorts before inserting", site=fr.where())
    if srt:
        ins = fr.call_blocks(T + "TrieBuilder::insert")
        ctx.check(all(i not in fr.reachable(0, cut_blocks=srt) for i in ins), "C16-R5", "from:sort-dominates-insert", "the sort dominates every insert",
                  "TokTrie::from inserts before sorting", site=fr.where())
