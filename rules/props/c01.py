"""C01 — mask = accept set; validate = longest committable prefix; EOS <=> accepting
(structural clauses)."""
from .. import facts as F
from .. import lib as L

NS = "llguidance::earley::parser::"
PS = NS + "ParserState"
SCR = NS + "Scratch"
REC = "<llguidance::earley::parser::ParserRecognizer<'_> as toktrie::toktree::Recognizer>::"
TP = "llguidance::tokenparser::TokenParser"
LEX = "llguidance::earley::lexer::Lexer"
SV = "toktrie::svob::SimpleVob::"

META = dict(
    explanation=(
        "Static analysis over MIR. Decided clauses: R1 one byte transition — RegexVec::transition and "
        "Lexer::advance have exactly the frozen caller sets, the speculative (mask/validate) and the "
        "definitive (commit/forced bytes) drivers both go Lexer::advance -> advance_lexer_or_parser, "
        "commits and validation push bytes only through those two drivers; R2 mode non-interference — "
        "every region controlled by a branch on scratch.definitive (and by Lexer::advance's logging "
        "parameter) writes no transition state and contains no return (frozen exception: "
        "handle_hidden_bytes, stop= lexemes only); R3 EOS enters a mask only under is_accepting() "
        "(token level) / lexer_allows_eos() with empty start (parser level), and the accepting arm "
        "always adds it; R4 census of every site that sets bits in a token mask."
    ),
    not_decided=(
        "equality of the mask with the accept set as sets of tokens (needs lexer + Earley semantics on "
        "every input); exactness of the validated prefix length"
    ),
)
META["explanation"] += (
    " Added after the independent seeding rounds 2-3: " 'R5 slicer-shortcut soundness: subsume_possible() is false for dead/errored states and whenever a lazy lexeme is live, true only after the full scan; check_subsume compares the slice regex with the residual regex stored for the current lexer state (operand provenance) and answers true only on a positive containment result. R6 the trie builder searches the whole sibling list, in agreement with first-match readers.'
)

TRANSITION_FIELDS = {
    (PS, "lexer_stack"), (PS, "rows"), (PS, "rows_valid_end"), (PS, "lexer_stack_top_eos"),
    (SCR, "items"), (SCR, "item_args"), (SCR, "row_start"), (SCR, "row_end"), (SCR, "grammar_stack"),
    (SCR, "push_grm_top"), (SCR, "push_lexeme_idx"), (SCR, "push_allowed_lexemes"), (SCR, "push_allowed_grammar_ids"),
    (NS + "LexerState", "lexer_state"), (NS + "LexerState", "row_idx"), (NS + "LexerState", "byte"),
    (NS + "Row", "first_item"), (NS + "Row", "last_item"), (NS + "Row", "lexer_start_state"), (NS + "Row", "lexeme_idx"),
    (NS + "Row", "grammar_stack_ptr"),
}
MODE_EXC = {
    PS + "::handle_hidden_bytes": "lazy lexemes with hidden (stop=) bytes: definitive mode backtracks bytes, speculative mode re-lexes; "
                                  "only reachable for stop= lexemes, outside the core fragment",
}
# mask-bit setters of SimpleVob (everything that can turn a bit on)
SETTERS = {"allow_token", "allow_token_unchecked", "allow_range", "set", "set_all", "or", "or_minus", "set_from", "resize"}
CLEARERS = {"disallow_token", "and", "sub", "clear_excessive_bits", "trim_trailing_zeros"}
# receivers that are not token masks (SimpleVob used as a generic bit set)
NON_MASK_FIELDS = {
    ("llguidance::earley::regexvec::LexemeSet", "vob"): "lexeme set",
    (SCR, "push_allowed_grammar_ids"): "grammar-id set",
}
MASK_WRITERS = {
    "llguidance::earley::lexer::Lexer::from": ("allowed_first_byte: byte set of the lexer, not a token mask", {"allow_token": 1}),
    PS + "::compute_bias": ("EOS for EOS-terminated gen lexemes (guarded: lexer_allows_eos, R3)", {"allow_token": 1}),
    PS + "::compute_bias::{closure#1}": ("token-range lexemes (<[a-b]>), inside run_speculative after flush_lexer", {"allow_range": 1}),
    "llguidance::earley::slicer::TokenizerSlice::apply": ("slice mask OR-ed in (C10)", {"or": 1}),
    "llguidance::earley::slicer::TokenizerSlice::from_topo_node": ("slice mask construction (C10)", {"set_all": 1, "allow_token": 1}),
    TP + "::compute_mask_inner": ("EOS when accepting (guarded: is_accepting, R3)", {"allow_token": 1}),
    "toktrie::toktree::TokTrie::add_bias_inner": ("the trie walk: token allowed iff all its bytes were accepted by the recogniser", {"allow_token_unchecked": 1}),
    "toktrie::toktree::TokTrie::eos_token_set": ("EOS singleton", {"allow_token": 1}),
    "toktrie::toktree::TokTrie::singleton_token_set": ("forced-token singleton", {"allow_token": 1}),
}


def _uses(b, blocks):
    out = set()

    def op(o):
        p = F.op_place(o)
        if p:
            out.add(p[0])
            for e in p[1:]:
                if isinstance(e, dict) and "i" in e:
                    out.add(e["i"])

    for bi in blocks:
        blk = b.blocks[bi]
        for st in blk["st"]:
            if st["s"] == "assign":
                r = st["r"]
                for o in F._rvalue_operands(r):
                    op(o)
                if r["rv"] in ("ref", "rawptr", "discr"):
                    out.add(r["p"][0])
                if len(st["p"]) > 1:
                    out.add(st["p"][0])
        t = blk["term"]
        if t["t"] == "call":
            for a in t["args"]:
                op(a)
            if "op" in t["f"]:
                op(t["f"]["op"])
        elif t["t"] == "switch":
            op(t["o"])
    return out


def _defs_in(b, blocks):
    out = set()
    for bi in blocks:
        blk = b.blocks[bi]
        for st in blk["st"]:
            if st["s"] == "assign" and len(st["p"]) == 1:
                out.add(st["p"][0])
        t = blk["term"]
        if t["t"] == "call" and len(t["dest"]) == 1:
            out.add(t["dest"][0])
    return out


def _is_drop_flag(b, l):
    if b.locals[l].get("n") or b.local_ty(l) != "bool":
        return False
    ds = b.defs().get(l, [])
    return bool(ds) and all(k == "assign" and p["rv"] == "use" and "iv" in p["o"] for (_, _, k, p) in ds)


# values computed differently per mode that flow out of the region, with the reason they cannot
# change accept/reject
# (function, role of the escaping local) — roles are decided from the local's type and defining expressions, not its name
ESCAPE_OK = {
    (PS + "::advance_parser", "lexeme-payload"): "payload only: mk_lexeme vs Lexeme::just_idx carry the same lexeme index; the bytes are "
                                                 "read only for captures/row_infos, which exist in definitive mode only",
    (PS + "::advance_parser", "scan-result"): "row re-use shortcut, sound under the rows_valid_end discipline (C11-R3)",
    (SCR + "::log_enabled", "return"): "the mode accessor itself; branches on its result are checked like branches on the flag",
}


def _escape_role(b, l):
    """role of a local that is defined inside a mode-controlled region and used outside it"""
    if l == 0:
        return "return"
    ty = b.local_ty(l)
    ds = b.defs().get(l, [])
    if ty == "llguidance::earley::lexerspec::Lexeme" and ds and all(
            k == "call" and p["f"].get("def") in (PS + "::mk_lexeme", "llguidance::earley::lexerspec::Lexeme::just_idx") for (_, _, k, p) in ds):
        return "lexeme-payload"
    if ty == "bool" and ds:
        def ok(k, p):
            if k == "call":
                return p["f"].get("def") == PS + "::scan"
            if k == "assign" and p["rv"] == "use":
                if "iv" in p["o"]:
                    return True
                src = F.op_place(p["o"])
                return bool(src) and len(src) == 1 and _escape_role(b, src[0]) == "scan-result"
            return False
        if all(ok(k, p) for (_, _, k, p) in ds):
            return "scan-result"
    return b.local_name(l)


both_reach_return = L.both_reach_return


def run(ctx):
    P = ctx.prog

    # ------------------------------------------------------------------ R1 one transition
    tr = "llguidance::earley::regexvec::RegexVec::transition"
    ctx.body(tr)
    exp = {LEX + "::advance", LEX + "::from", LEX + "::transition_start_state::{closure#0}",
           "llguidance::stop_controller::StopController::commit_token_u8"}
    got = set(P.callers_of(tr))
    ctx.check(got == exp, "C01-R1", "callers:RegexVec::transition", "exactly the 4 expected callers",
              "callers of RegexVec::transition changed: unexpected %s missing %s" % (sorted(got - exp), sorted(exp - got)))
    adv = ctx.body(LEX + "::advance")
    got = set(P.callers_of(adv.id))
    ctx.floor("C01-R1", "callers of Lexer::advance", len(got), 5)
    # armed form: functions that call Lexer::advance and can mutate lexer_stack/rows
    drivers = set()
    for c in got:
        eff = P.transitive_effects([c])
        W = L.fields_written(eff, (NS,))
        if (PS, "lexer_stack") in W or (PS, "rows") in W:
            drivers.add(c)
    expd = {REC + "try_push_byte", PS + "::try_push_byte_definitive", PS + "::handle_hidden_bytes"}
    ctx.check(drivers == expd, "C01-R1", "byte-transition-drivers",
              "the functions that advance the lexer and can change parser history are exactly {speculative try_push_byte, "
              "try_push_byte_definitive, handle_hidden_bytes}",
              "a second byte transition exists: unexpected %s missing %s" % (sorted(drivers - expd), sorted(expd - drivers)))
    alp = PS + "::advance_lexer_or_parser"
    for f in (REC + "try_push_byte", PS + "::try_push_byte_definitive"):
        b = ctx.body(f)
        a = b.call_blocks(adv.id)
        n = b.call_blocks(alp)
        ok = bool(a) and bool(n) and not L.must_pass(b, a, n)
        ctx.check(ok, "C01-R1", "advance-then-dispatch:" + f.rsplit("::", 1)[1] + ("(spec)" if f.startswith("<") else ""),
                  "Lexer::advance is followed by advance_lexer_or_parser on every path",
                  "%s no longer feeds the result of Lexer::advance into advance_lexer_or_parser on every path" % f, site=b.where())
        # the lexer result passed on is the one just computed
        if n:
            t = b.blocks[n[0]]["term"]
            e = b.expr(t["args"][1])
            ctx.check(e[0] == "call" and e[1] in (adv.id, LEX + "::force_lexeme_end") or e[0] == "local", "C01-R1",
                      "dispatch-arg:" + f.rsplit("::", 1)[1] + ("(spec)" if f.startswith("<") else ""),
                      "the dispatched LexerResult is the result of Lexer::advance (or force_lexeme_end for EOI)",
                      "advance_lexer_or_parser receives %s instead of the lexer result" % F.fmt_expr(e), site=b.where(n[0]))
    got = set(P.callers_of(alp))
    expc = {REC + "try_push_byte", PS + "::try_push_byte_definitive", PS + "::flush_lexer"}
    ctx.check(got == expc, "C01-R1", "callers:advance_lexer_or_parser", "exactly {try_push_byte, try_push_byte_definitive, flush_lexer}",
              "callers of advance_lexer_or_parser changed: unexpected %s missing %s" % (sorted(got - expc), sorted(expc - got)))
    got = set(P.callers_of(PS + "::try_push_byte_definitive"))
    expc = {PS + "::apply_token", PS + "::force_bytes::{closure#0}"}
    ctx.check(got == expc, "C01-R1", "callers:try_push_byte_definitive", "exactly {apply_token, force_bytes closure}",
              "callers of try_push_byte_definitive changed: unexpected %s missing %s" % (sorted(got - expc), sorted(expc - got)))
    # who pushes onto lexer_stack at all (every way a byte can enter the history)
    pushers = set()
    for b in P.bodies.values():
        if P._is_code(b):
            w, m, r = P.own_effects(b)
            if any(fld == (PS, "lexer_stack") and L.callee_last(c) in ("push", "insert", "extend", "extend_from_slice", "resize", "append") for fld, c in m):
                pushers.add(b.id)
    expp = {PS + "::advance_lexer_or_parser", PS + "::advance_parser", PS + "::add_numeric_token", PS + "::handle_hidden_bytes"}
    ctx.check(pushers == expp, "C01-R1", "lexer_stack:pushers", "lexer_stack grows only in %d known functions" % len(expp),
              "functions pushing onto ParserState.lexer_stack changed: unexpected %s missing %s" % (sorted(pushers - expp), sorted(expp - pushers)))
    # validate_tokens pushes bytes only through the recogniser's try_push_byte
    vt = PS + "::validate_tokens::{closure#0}"
    vb = ctx.body(vt)
    reach = P.reachable_from([vt], stop={REC + "try_push_byte", PS + "::flush_and_check_numeric", PS + "::add_numeric_token", PS + "::is_accepting_inner"})
    bad = [x for x in reach if x in (PS + "::try_push_byte_definitive", adv.id, alp)]
    ctx.check(not bad and bool(vb.call_blocks(REC + "try_push_byte")), "C01-R1", "validate-through-speculative-driver",
              "validate_tokens pushes bytes only through the speculative try_push_byte (plus the token-range branch)",
              "validate_tokens reaches %s directly" % bad, site=vb.where())

    # ------------------------------------------------------------------ R2 mode non-interference
    split = L.mode_split(P, SCR, "definitive")
    ctx.floor("C01-R2", "functions branching on scratch.definitive", len(split), 7)
    fpred = L.is_field_read(SCR, "definitive")

    def pred(e):
        return fpred(e) or (e[0] == "call" and e[1] == SCR + "::log_enabled")

    n_regions = 0
    log_callers = [c for c in P.callers_of(SCR + "::log_enabled") if c in P.bodies]
    for bid in sorted(set(split) | set(log_callers)):
        b = P.bodies[bid]
        for nm, truth in (("definitive", True), ("speculative", False)):
            edges = [e for e in L.guard_edges(b, pred, truth) if both_reach_return(b, e[0])]
            if not edges:
                continue
            reg = L.blocks_only_via_edges(b, edges)
            if not reg:
                continue
            n_regions += 1
            callees = set()
            for bi, s in P.block_calls(b).items():
                if bi in reg:
                    callees |= s
            W = set(L.fields_written(P.transitive_effects(sorted(callees)), (NS,)))
            for bi, (w, m, r) in P.block_effects(b).items():
                if bi in reg:
                    W |= {x for x in w}
                    W |= {x[0] for x in m}
            bad = sorted(W & TRANSITION_FIELDS)
            rets = [bi for bi in reg if b.blocks[bi]["term"]["t"] == "return"]
            inst = "%s:%s-only-region" % (bid, nm)
            if bid in MODE_EXC:
                ctx.ok("C01-R2", inst, "exception: " + MODE_EXC[bid])
                continue
            ctx.check(not bad, "C01-R2", inst + ":writes",
                      "%d-block region writes no transition state" % len(reg),
                      "the %s-only region of %s writes transition state %s: speculative and definitive runs of the same "
                      "bytes can diverge" % (nm, bid, ["%s.%s" % (a.rsplit("::", 1)[1], f) for a, f in bad]),
                      site=b.where(min(reg)))
            dd = _defs_in(b, reg)
            esc = sorted(l for l in (dd & (_uses(b, b.live_blocks() - reg) | {0})) if not _is_drop_flag(b, l))
            bad_esc = [l for l in esc if (bid, _escape_role(b, l)) not in ESCAPE_OK]
            ctx.check(not rets and not bad_esc, "C01-R2", inst + ":no-result",
                      "region neither returns nor defines a value used outside it%s"
                      % ("" if not esc else " (reasoned exceptions: %s)" % [b.local_name(l) for l in esc]),
                      "the %s-only region of %s decides a value that flows out of it (%s): accept/reject can depend on the "
                      "mode flag" % (nm, bid, "return" if rets else [b.local_name(l) + ": " + b.local_ty(l) for l in bad_esc]),
                      site=b.where(min(reg)))
    ctx.floor("C01-R2", "mode-controlled regions", n_regions, 8)
    # Lexer::advance's logging parameter: the region it controls is effect-free
    lp = None
    for bi, e, targets, otherwise in adv.switch_edges():
        if e[0] == "place" and e[1] == [3]:
            lp = bi
            edges = [(bi, t) for v, t in targets if v != 0]
            if all(v == 0 for v, _ in targets):
                edges = [(bi, otherwise)]
            reg = L.blocks_only_via_edges(adv, edges)
            W = set()
            for b2, (w, m, r) in P.block_effects(adv).items():
                if b2 in reg:
                    W |= w | {x[0] for x in m}
            rets = [x for x in reg if adv.blocks[x]["term"]["t"] == "return"]
            ctx.check(not W and not rets, "C01-R2", "Lexer::advance:logging-region",
                      "enable_logging controls %d blocks without writes or returns" % len(reg),
                      "Lexer::advance's logging flag (true for commits, false for masks) controls a region that writes %s / returns"
                      % sorted(W), site=adv.where(bi))
    if lp is None:
        # parameter unused as a branch condition (e.g. logging compiled out): nothing to check
        ctx.ok("C01-R2", "Lexer::advance:logging-region", "enable_logging is not a branch condition in this configuration")
    # argument 3 of Lexer::advance is a literal at both drivers (no data flows through it)
    for c in (REC + "try_push_byte", PS + "::try_push_byte_definitive"):
        b = P.bodies[c]
        for bi in b.call_blocks(adv.id):
            e = b.expr(b.blocks[bi]["term"]["args"][3])
            ctx.check(e[0] == "const", "C01-R2", "advance-log-arg:" + ("spec" if c.startswith("<") else "def"),
                      "logging argument is the literal %s" % (e[3] if e[0] == "const" else "?"),
                      "Lexer::advance is called with a non-literal logging flag", site=b.where(bi))

    # row re-use watermark (shared with C11-R3): speculative rows are re-used only below rows_valid_end
    from . import c11 as _c11
    _c11.watermark_values(ctx, "C01-R2")
    # the slicer's mask shortcut is the one place where mask bits are set without pushing the token's bytes:
    # its soundness condition (shared with C10-R4)
    from . import c10 as _c10
    _c10.subsume_operands(ctx, "C01-R5")
    _c10.subsume_guard(ctx, "C01-R5")
    # R6: the mask walk with a pending prefix navigates the trie by bytes (first matching child); the builder must agree
    from . import c16 as _c16
    _c16.builder_first_match(ctx, "C01-R6")

    # ------------------------------------------------------------------ R3 EOS guard
    cm = ctx.body(TP + "::compute_mask_inner")
    eos_sites = []
    for bi, t in cm.calls():
        if t["f"].get("def") == SV + "allow_token":
            eos_sites.append(bi)
    if ctx.floor("C01-R3", "allow_token sites in compute_mask_inner", len(eos_sites), 1):
        acc = L.guard_edges(cm, L.is_call_to(TP + "::is_accepting"), True)
        still = L.dominated_by_cut(cm, eos_sites, acc) if acc else eos_sites
        ctx.check(bool(acc) and not still, "C01-R3", "token-level:eos-under-is_accepting",
                  "allow_token(eos) is dominated by the true edge of is_accepting()",
                  "compute_mask_inner can add the EOS token without is_accepting() being true", site=cm.where(eos_sites[0]))
        # the allowed token is an element of self.eos_tokens
        e = cm.expr(cm.blocks[eos_sites[0]]["term"]["args"][1])
        ctx.info("C01-R3", "eos operand: " + F.fmt_expr(e))
        # accepting => EOS added: the true edge reaches the Ok return only through the eos loop
        it = [bi for bi, t in cm.calls() if "Iterator" in t["f"].get("def", "") and t["f"]["def"].endswith("::next")]
        ok_ret = [bi for bi, (w, m, r) in P.block_effects(cm).items() if False]
        # is_accepting true edge must lead to the iterator over eos_tokens
        heads = set(t for (_, t) in acc)
        hit = all(any(x in cm.reachable(h) for x in eos_sites) for h in heads)
        ctx.check(hit and bool(heads), "C01-R3", "token-level:accepting-adds-eos", "the accepting arm reaches the EOS loop",
                  "the accepting arm of compute_mask_inner no longer adds EOS", site=cm.where())
    # EOS token set iterated is TokenParser.eos_tokens
    cb = ctx.body(PS + "::compute_bias")
    sites = [bi for bi, t in cb.calls() if t["f"].get("def") == SV + "allow_token"]
    if ctx.floor("C01-R3", "allow_token sites in ParserState::compute_bias", len(sites), 1):
        g = L.guard_edges(cb, L.is_call_to(PS + "::lexer_allows_eos"), True)
        still = L.dominated_by_cut(cb, sites, g) if g else sites
        ctx.check(bool(g) and not still, "C01-R3", "parser-level:eos-under-lexer_allows_eos",
                  "allow_token(eos) in compute_bias is dominated by lexer_allows_eos()",
                  "ParserState::compute_bias can add EOS without lexer_allows_eos()", site=cb.where(sites[0]))
        g2 = L.guard_edges(cb, lambda e: e[0] == "call" and e[1] == "core::slice::<impl [T]>::is_empty", True)
        still = L.dominated_by_cut(cb, sites, g2) if g2 else sites
        ctx.check(bool(g2) and not still, "C01-R3", "parser-level:eos-under-empty-start",
                  "allow_token(eos) in compute_bias is dominated by start.is_empty()",
                  "ParserState::compute_bias can add EOS while forced bytes are pending", site=cb.where(sites[0]))
    la = ctx.body(PS + "::lexer_allows_eos")
    # lexer_allows_eos returns false without pending lexeme bytes
    g = L.guard_edges(la, L.is_call_to(PS + "::has_pending_lexeme_bytes"), True)
    ae = la.call_blocks(LEX + "::allows_eos")
    still = L.dominated_by_cut(la, ae, g) if g else ae
    ctx.check(bool(ae) and bool(g) and not still, "C01-R3", "lexer_allows_eos:needs-pending-bytes",
              "Lexer::allows_eos is consulted only with pending lexeme bytes",
              "lexer_allows_eos consults the lexer without pending lexeme bytes (empty lexemes would allow EOS)", site=la.where())

    # ------------------------------------------------------------------ R4 mask writers census
    seen = {}
    for i, b in sorted(P.bodies.items()):
        if not P._is_code(b) or i.startswith("toktrie::svob::"):
            continue
        for bi, t in b.calls():
            d = t["f"].get("def", "")
            if not d.startswith(SV):
                continue
            m = d[len(SV):]
            callee = P.bodies.get(d)
            is_mut = callee is not None and callee.argc >= 1 and callee.local_ty(1).startswith("&mut")
            if not is_mut:
                continue
            if m in CLEARERS:
                continue
            if m not in SETTERS:
                ctx.violation("C01-R4", "unclassified-svob-method:" + m,
                              "SimpleVob::%s takes &mut self and is neither in the setter nor the clearer table" % m, site=b.where(bi))
                continue
            e = b.expr(t["args"][0])
            fs = F.place_fields(e[1]) if e[0] in ("ref", "place") else []
            if fs and fs[-1] in NON_MASK_FIELDS:
                continue
            seen.setdefault(i, []).append((m, b.where(bi)))
    for i, sites in sorted(seen.items()):
        if i in MASK_WRITERS:
            cnt = {}
            for m_, w_ in sites:
                cnt[m_] = cnt.get(m_, 0) + 1
            allowed = MASK_WRITERS[i][1]
            over = {m_: c for m_, c in cnt.items() if c > allowed.get(m_, 0)}
            ctx.check(not over, "C01-R4", i, "%s — %s" % (cnt, MASK_WRITERS[i][0]),
                      "%s has additional mask-bit setting sites %s beyond the census %s" % (i, over, allowed), site=sites[0][1])
        else:
            ctx.violation("C01-R4", "new-mask-writer:" + i,
                          "%s sets bits in a SimpleVob (%s) and is not in the census of token-mask writers: a token can enter a "
                          "mask without passing the byte-level recogniser" % (i, sites[0][0]), site=sites[0][1])
    ctx.floor("C01-R4", "token-mask writers", len(seen), 8)
    # constructors that produce non-empty sets
    for ctor, expc in (("alloc_ones", set()), ("negated", {"toktrie::toktree::TokTrie::token_set_dbg"}),
                       ("from_slice", None)):
        cs = set(c for c in P.callers_of(SV + ctor) if not c.startswith("toktrie::svob::"))
        if expc is None:
            ctx.info("C01-R4", "%s callers: %s" % (ctor, sorted(cs)))
            continue
        ctx.check(cs <= expc, "C01-R4", "ctor:" + ctor, "callers of SimpleVob::%s ⊆ %s" % (ctor, sorted(expc)),
                  "SimpleVob::%s (creates set bits wholesale) has new callers %s" % (ctor, sorted(cs - expc)))
