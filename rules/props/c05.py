"""C05 — a Lark context-free grammar admits exactly the grammar's language (structural clauses only)."""

META = dict(
    explanation=(
        "Static analysis over MIR. That the Earley recogniser derives exactly the grammar's language is an inductive statement "
        "about item sets computed at run time and is NOT decided. Decided are the translation steps between the Lark source and "
        "the rule table the recogniser runs on, each a necessary condition of the property, by the rules already built for the "
        "properties that share them: R1 (adopted from C09-R1) the rule-level operators `* + ?` dispatch to "
        "GrammarBuilder::zero_or_more / one_or_more / optional and `{m,n}` to repeat(m, None if n == i32::MAX else n); R2 "
        "(adopted from C09-R2) the rule shapes of those helpers (optional: [] | [x]; plus: [x] | [p x]; star: [] | [p x]) and the "
        "dispatch of repeat; R3 (adopted from C09-R6) the repetition-count algebra: simple_repeat / repeat_exact / at_most / "
        "at_least / repeat return a node deriving exactly the counts of their contract (inductive step of the K-factorisation, "
        "computed symbolically); R4 (adopted from C09-R4) their memo tables are private and keyed by their arguments; R5 "
        "(adopted from C15-R1..R4) the rule-inlining optimisation runs once before compilation, both elimination sites are "
        "guarded by !is_special_symbol and their shape conditions (single rule, condition true), the guard covers every semantic "
        "symbol property, the alias union-find compresses to the root, and every rule of a kept symbol is re-emitted."
    ),
    not_decided=(
        "Earley scan / predict / complete (including nullable completion and parametric conditions), the nullable pre-computation, "
        "the Lark parser itself, CGrammar::from_grammar's table layout"
    ),
)


def run(ctx):
    ctx.import_clauses("c09", "C09-R1", ["rule:"], "C05-R1")
    ctx.import_clauses("c09", "C09-R2", [""], "C05-R2")
    ctx.import_clauses("c09", "C09-R6", ["count-set:"], "C05-R3")
    ctx.import_clauses("c09", "C09-R4", [""], "C05-R4")
    for r in ("C15-R1", "C15-R2", "C15-R3", "C15-R4", "C15-R5"):
        ctx.import_clauses("c15", r, [""], "C05-R5")
