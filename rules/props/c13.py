"""C13 — fast-forward bytes and tokens are genuinely forced and change nothing (clauses)."""
from .. import facts as F
from .. import lib as L

NS = "llguidance::earley::parser::"
PS = NS + "ParserState"
PARSER = NS + "Parser"
TP = "llguidance::tokenparser::TokenParser"
LEX = "llguidance::earley::lexer::Lexer"

META = dict(
    explanation=(
        "Static analysis over MIR (dominance / cut-sets, def-use, who-may-call). Decided clauses: R1 "
        "forced bytes enter the parser only through try_push_byte_definitive (the commit transition) "
        "and every byte pushed by force_bytes is the value returned by forced_byte() (or the "
        "expansion of a uniquely determined special token); R2 forced_byte() returns Some only when "
        "the state is not accepting, the fast path only on NextByte::ForcedByte, the slow path "
        "returns a byte only if exactly one of the probed bytes was accepted (second hit returns "
        "None) and undoes every probe; R3 the parser is told to force bytes only under "
        "can_force_bytes() = !no_forcing && tokenize_is_canonical() (exception: the explicit "
        "force_bytes query), ff_tokens are produced only with a canonical tokenizer and "
        "construction rejects ff_tokens otherwise; R4 bytes forced but not yet covered by tokens are "
        "passed as the start prefix of the mask computation."
    ),
    not_decided=(
        "uniqueness of the forced byte as a semantic fact (needs the 256-way probe's lexer/parser "
        "semantics); canonical re-tokenisation safety (chop_tokens); prompt healing arithmetic"
    ),
)
META["explanation"] += (
    " Added after the independent seeding rounds 2-3: " 'R5 the uniqueness scan behind the expansion of a forced 0xFF: over all Option<token id> slots, Some only for single-token ranges and only if the slot is None or equal, a conflict result is final, expansion only on the Some arm. R6 token healing (chop_tokens) returns the accumulated token_len of the removed tokens. R7 (round 4) the two pending-text slices of process_prompt are T[P..P+G-C] and T[P+G-C..P] of T = prompt ++ forced bytes (bounds evaluated as linear forms over the lengths, flow-sensitive in the length of the prompt buffer).'
)


def _opt_variant(cb, rv):
    """'None' / 'Some' if rvalue (possibly through one temp) is an Option aggregate"""
    if rv.get("rv") == "agg" and isinstance(rv.get("kind"), dict) and rv["kind"].get("adt") == "core::option::Option":
        return rv["kind"]["variant"], rv.get("ops", [])
    if rv.get("rv") == "use":
        o = rv["o"]
        pl = o.get("m") or o.get("c")
        if pl and len(pl) == 1:
            ds = cb.defs().get(pl[0], [])
            if len(ds) == 1 and ds[0][2] == "assign":
                return _opt_variant(cb, ds[0][3])
    return None, None


def r5_accumulator(ctx, cb):
    """Uniqueness scan behind the expansion of a forced 0xFF.  Written over *all* Option<token id> locals of the scan
    (the accumulator itself, or the return slot of a spliced `fn unique_..() -> Option<TokenId>` helper), so that both
    the flag form (`acc = None; break 'spec`) and the early-return form (`return None`) are recognised."""
    R = "C13-R5"
    P = ctx.prog
    OPT = "core::option::Option<u32>"
    pushes = set(cb.call_blocks(PS + "::try_push_byte_definitive"))
    opt_locals = {l for l in range(len(cb.locals)) if cb.local_ty(l) == OPT}
    # slots: user variables and return slots of spliced helpers (not the temporaries that carry an aggregate or a
    # comparison operand)
    slots = {l for l in opt_locals if cb.locals[l].get("n")}
    for bi, si, st in cb.statements():
        if "inl" in st and st["r"].get("rv") == "use":
            src = st["r"]["o"].get("m") or st["r"]["o"].get("c")
            if src and len(src) == 1 and src[0] in opt_locals:
                slots.add(src[0])
    kinds = []  # (block, variant)
    for l in sorted(slots):
        for (bi, si, kind, rv) in cb.defs().get(l, []):
            if kind != "assign":
                continue
            v, ops = _opt_variant(cb, rv)
            if v is not None:
                kinds.append((bi, v))
    somes = sorted({k[0] for k in kinds if k[1] == "Some"})
    nones = sorted({k[0] for k in kinds if k[1] == "None"})
    idom = cb.dominators()
    init = [n for n in nones if somes and all(cb.dominates(n, sb, idom) for sb in somes)]
    ctx.check(len(init) >= 1 and bool(somes), R, "accumulator:initialised-none",
              "the scan starts from None and stores Some(token id) inside it",
              "no dominating None initialisation (or no Some assignment) of the unique-token accumulator in force_bytes", site=cb.where())
    if not init or not somes:
        return
    conflicts = [n for n in nones if n not in init]
    ctx.floor(R, "conflict results (None) of the uniqueness scan", len(conflicts), 1)
    for k, n in enumerate(conflicts):
        reach = cb.reachable(n, cut_blocks=init)
        hit = sorted(reach & set(somes))
        ctx.check(not hit, R, "accumulator:conflict-is-final#%d" % k,
                  "after a conflict (None result) no Some assignment is reachable before re-initialisation",
                  "after the scan has produced None on a conflict it continues and can assign Some again (%s): one of several "
                  "possible special tokens is then forced" % [cb.where(h) for h in hit], site=cb.where(n))
    start = init[0]

    def on_opt(x):
        x = L.strip_views(x)
        if x[0] == "ref" and len(x[1]) == 1:
            return x[1][0] in opt_locals
        return (x[0] == "local" and x[1] in opt_locals) or (x[0] == "place" and len(x[1]) == 1 and x[1][0] in opt_locals)
    is_none = lambda x: x[0] == "call" and x[1].endswith("Option::<T>::is_none") and on_opt(x[2][0])
    is_some = lambda x: x[0] == "call" and x[1].endswith("Option::<T>::is_some") and on_opt(x[2][0])
    eq_acc = lambda x: x[0] == "call" and x[1].endswith("::eq") and any(on_opt(a) for a in x[2])
    ne_acc = lambda x: x[0] == "call" and x[1].endswith("::ne") and any(on_opt(a) for a in x[2])

    def range_ends(x):
        names = set()
        for a in x[2]:
            a = L.strip_wrappers(a)
            if a[0] == "ref":
                v = L.value_of(cb, a)
                a = v if v else a
            if a[0] == "call":
                names.add(a[1].rsplit("::", 1)[1])
        return names == {"start", "end"}
    single = lambda x: x[0] == "call" and x[1].endswith("::eq") and len(x[2]) == 2 and range_ends(x)
    multi = lambda x: x[0] == "call" and x[1].endswith("::ne") and len(x[2]) == 2 and range_ends(x)
    # pattern form (`match acc { Some(prev) if prev != t => .., _ => acc = Some(t) }`): the edge on which the slot is None, and
    # comparisons of its payload
    extra = []
    for sb_, e_, targets_, otherwise_ in cb.switch_edges():
        o_ = cb.blocks[sb_]["term"]["o"]
        pl_ = F.op_place(o_)
        if pl_ and len(pl_) == 1:
            ds_ = [d for d in cb.defs().get(pl_[0], []) if d[2] == "assign"]
            if len(ds_) == 1 and ds_[0][3]["rv"] == "discr" and len(ds_[0][3]["p"]) == 1 and ds_[0][3]["p"][0] in opt_locals:
                extra += [(sb_, tb) for v, tb in targets_ if v == 0]
                if not any(v == 0 for v, _ in targets_):
                    extra.append((sb_, otherwise_))

    def payload_of_opt(x):
        return x[0] == "place" and x[1] and x[1][0] in opt_locals and any(isinstance(y, dict) and y.get("dc") == "Some" for y in x[1][1:])
    eq_payload = lambda x: x[0] == "bin" and x[1] == "Eq" and (payload_of_opt(x[2]) or payload_of_opt(x[3]))
    ne_payload = lambda x: x[0] == "bin" and x[1] == "Ne" and (payload_of_opt(x[2]) or payload_of_opt(x[3]))
    g1 = L.guard_edges_multi(cb, [(is_none, True), (is_some, False), (eq_acc, True), (ne_acc, False), (eq_payload, True), (ne_payload, False)],
                             extra_edges=extra)
    g2 = L.guard_edges_multi(cb, [(single, True), (multi, False)])
    for k, bi in enumerate(somes):
        ctx.check(bool(g1) and not L.dominated_by_cut(cb, [bi], g1, start=start), R, "accumulator:some-only-if-none-or-equal#%d" % k,
                  "Some(t) is stored only when the accumulator is None or already Some(t)",
                  "the accumulator is overwritten with Some(t) without testing that it was None or the same id", site=cb.where(bi))
        ctx.check(bool(g2) and not L.dominated_by_cut(cb, [bi], g2, start=start), R, "accumulator:some-only-for-single-token-range#%d" % k,
                  "Some(t) is stored only for ranges with start == end",
                  "a multi-token range can set the unique token id", site=cb.where(bi))
    # the expansion pushes happen only on the Some arm of a switch on the scan's Option<token id> result
    cut = []
    for bi, e, targets, otherwise in cb.switch_edges():
        if e[0] != "discr":
            continue
        x = e[1]
        ty = None
        if x[0] == "local":
            ty = cb.local_ty(x[1])
        elif x[0] == "place" and len(x[1]) == 1:
            ty = cb.local_ty(x[1][0])
        elif x[0] == "call":
            hb = P.bodies.get(x[1]) or P.hidden.get(x[1])
            ty = hb.local_ty(0) if hb is not None else None
        if ty == OPT:
            cut += [(bi, tb) for v, tb in targets if int(v) == 1]
    special = []
    for bi in pushes:
        e = cb.expr(cb.blocks[bi]["term"]["args"][1])
        src = e[2][0] if e[0] == "agg" and e[2] else None
        plain = False
        if src is not None and src[0] == "place":
            base = cb.expr_place([src[1][0]])
            plain = base[0] == "call" and base[1] == PS + "::forced_byte"
        if not plain:
            special.append(bi)
    if ctx.floor(R, "marker-expansion push sites", len(special), 1):
        ctx.check(bool(cut) and not L.dominated_by_cut(cb, special, cut, start=start), R, "expansion-only-if-unique",
                  "the \\xFF[id] expansion is pushed only on the Some arm of the scan result",
                  "the marker expansion can be pushed although no unique token id was determined", site=cb.where())


def r6_chop_tokens(ctx):
    """Token healing (`TokTrie::chop_tokens`): the caller removes `chop_idx` whole tokens and treats the returned byte count
    as the text they spanned (it becomes the pending prefix of the next mask, and the prompt is cut by it).  The count
    must therefore be the accumulated `token_len` of the removed tokens — not the length of the extendable tail, which
    is shorter whenever the tail starts in the middle of a token."""
    R = "C13-R6"
    TT_ = "toktrie::toktree::TokTrie"
    b = ctx.body(TT_ + "::chop_tokens")
    tl = b.call_blocks(TT_ + "::token_len")
    # accumulators: locals assigned `acc = (acc + token_len(..))`
    accs = set()
    for l, ds in b.defs().items():
        for (bi, si, kind, r) in ds:
            if kind != "assign":
                continue
            e = b.expr_rvalue(r) if r["rv"] != "use" else b.expr(r["o"])
            if e[0] == "bin" and e[1].startswith("Add"):
                sides = (e[2], e[3])
                if any(x[0] == "call" and x[1] == TT_ + "::token_len" for x in sides) and any(
                        (x[0] == "local" and x[1] == l) or (x[0] == "place" and x[1] == [l]) for x in sides):
                    accs.add(l)
    ctx.check(bool(tl) and len(accs) == 1, R, "chop_tokens:accumulates-token_len", "the bytes of the removed tokens are summed with token_len",
              "chop_tokens no longer accumulates token_len over the removed tokens", site=b.where())
    rets = []
    for bi, si, st in b.statements():
        r = st.get("r", {})
        if st["s"] == "assign" and st["p"] == [0] and r.get("rv") == "agg" and r.get("kind") == "tuple" and len(r["ops"]) == 2:
            if "iv" in r["ops"][1]:
                continue  # the (0, 0) "nothing to chop" result
            pl = F.op_place(r["ops"][1])
            l = pl[0] if pl else None
            for _ in range(4):
                ds = b.defs().get(l, []) if l is not None else []
                if l in accs or b.locals[l].get("n") or len(ds) != 1 or ds[0][2] != "assign" or ds[0][3]["rv"] != "use":
                    break
                nx = F.op_place(ds[0][3]["o"])
                if not nx:
                    break
                l = nx[0]
            rets.append((bi, l))
    if ctx.floor(R, "non-trivial results of chop_tokens", len(rets), 1):
        bad = [bi for bi, l in rets if l not in accs]
        ctx.check(not bad, R, "chop_tokens:returns-whole-token-bytes", "the returned byte count is the accumulated length of the removed tokens",
                  "chop_tokens returns a byte count that is not the accumulated token_len of the tokens it tells the caller to remove "
                  "(e.g. the length of the extendable tail): when the tail starts mid-token, prompt text is lost and the next mask "
                  "is computed for a too-short pending prefix", site=b.where(bad[0]) if bad else b.where())


def prompt_slices_rule(ctx, R):
    """R7: process_prompt tokenises T = prompt ++ forced bytes, gives back the tokens of T[..|T|-C] (C = the bytes chopped
    for token healing) and keeps the rest pending: `llm_bytes` (forced text already owed to the model) must be
    T[P .. P+G-C] and, when the chop reaches into the prompt, `grm_prefix` must be T[P+G-C .. P]  (P, G = lengths of the
    prompt and of the forced bytes).  The slice bounds are evaluated as linear forms over P, G, C — `len()` of the prompt
    buffer is P before the forced bytes are appended and P+G after — so the rule is about the values, not the spelling.
    Slices the evaluator cannot place (the leading-space hack on `decoded`) are not judged."""
    from .. import repcount as RC
    P = ctx.prog
    b = ctx.try_body(TP + "::process_prompt", R)
    if b is None:
        return

    def single_def(l):
        ds = [d for d in b.defs().get(l, []) if d[2] != "partial"]
        return ds[0] if len(ds) == 1 else None

    def root_buf(e, depth=0):
        """the Vec local a slice/borrow expression views, or ('G',) for Parser::get_bytes()"""
        if depth > 8:
            return None
        if e[0] == "call":
            last = e[1].rsplit("::", 1)[-1]
            if e[1].endswith("Parser::get_bytes"):
                return ("G",)
            if last in ("deref", "as_slice", "as_ref", "borrow", "deref_mut", "clone", "to_vec", "to_owned", "as_bytes") and e[2]:
                return root_buf(e[2][0], depth + 1)
            return None
        if e[0] in ("ref", "place") and isinstance(e[1][0], int):
            l = e[1][0]
            d = single_def(l)
            if d is None:
                return ("local", l)
            if d[2] == "call":
                t = d[3]
                df = t["f"].get("def", "")
                if df.endswith("TokTrie::decode_raw"):
                    return ("PB", l)
                if df.endswith("Parser::get_bytes"):
                    return ("G",)
                if df.rsplit("::", 1)[-1] in ("to_vec", "to_owned", "clone", "deref", "from") and t["args"]:
                    inner = root_buf(b.expr(t["args"][0]), depth + 1)
                    if inner == ("G",):
                        return ("G",)
                    return inner if inner and inner[0] == "PB" and df.rsplit("::", 1)[-1] == "deref" else ("local", l)
            if d[2] == "assign" and d[3]["rv"] in ("use", "ref", "cast"):
                ex = b.expr_rvalue(d[3])
                if ex[0] in ("ref", "place") and ex[1][0] == l:
                    return ("local", l)
                return root_buf(ex, depth + 1)
            return ("local", l)
        if e[0] == "cast":
            return root_buf(e[1], depth + 1)
        return None

    # the append of the forced bytes to the prompt buffer
    ext = []
    pb = None
    for bi, t in b.calls():
        d = t["f"].get("def", "")
        if d.rsplit("::", 1)[-1] in ("extend_from_slice", "extend", "append") and len(t["args"]) >= 2:
            tgt = root_buf(b.expr(t["args"][0]))
            src = root_buf(b.expr(t["args"][1]))
            if tgt and tgt[0] == "PB" and src == ("G",):
                ext.append(bi)
                pb = tgt[1]
    # only the buffer that receives the forced bytes is the prompt buffer (other decode_raw results are not)
    _rb = root_buf

    def root_buf(e, depth=0):  # noqa: F811
        r = _rb(e, depth)
        if r and r[0] == "PB" and r[1] != pb:
            return ("local", r[1])
        return r
    if len(ext) != 1:
        ctx.info(R, "process_prompt: the append of the forced bytes to the decoded prompt was not recognised (not judged)")
        return
    ext_bi = ext[0]
    after_ext = b.reachable(ext_bi) - {ext_bi}

    def buf_len(buf, at):
        if buf == ("G",):
            return RC.lin(G=1)
        if buf and buf[0] == "PB":
            if at not in after_ext and at != ext_bi:
                return RC.lin(P=1)
            if at not in b.reachable(0, cut_blocks=[ext_bi]):
                return RC.ladd(RC.lin(P=1), RC.lin(G=1))
        return None

    def num(e, depth=0):
        if depth > 14:
            return None
        k = e[0]
        if k == "const" and isinstance(e[1], int):
            return RC.lin(e[1])
        if k == "cast":
            return num(e[1], depth + 1)
        if k == "bin" and e[1] in ("Add", "Sub"):
            x, y = num(e[2], depth + 1), num(e[3], depth + 1)
            return None if x is None or y is None else RC.ladd(x, y, 1 if e[1] == "Add" else -1)
        if k == "call":
            last = e[1].rsplit("::", 1)[-1]
            if last == "len" and e[2] and len(e) > 3:
                return buf_len(root_buf(e[2][0]), e[3])
            if last in ("saturating_sub", "wrapping_sub") and len(e[2]) == 2:
                x, y = num(e[2][0], depth + 1), num(e[2][1], depth + 1)
                return None if x is None or y is None else RC.ladd(x, y, -1)
        if k == "place":
            p = e[1]
            # field 1 of tokenize_and_chop's result = the chopped byte count
            if len(p) == 2 and isinstance(p[1], dict) and p[1].get("f") == 1:
                d = single_def(p[0])
                if d and d[2] == "call" and d[3]["f"].get("def", "").endswith("TokenParser::tokenize_and_chop"):
                    return RC.lin(C=1)
            if len(p) == 1:
                d = single_def(p[0])
                if d and d[2] == "assign":
                    ex = b.expr_rvalue(d[3])
                    if ex != e:
                        return num(ex, depth + 1)
        return None

    spec = {"llm_bytes": (RC.lin(P=1), RC.ladd(RC.ladd(RC.lin(P=1), RC.lin(G=1)), RC.lin(C=1), -1)),
            "grm_prefix": (RC.ladd(RC.ladd(RC.lin(P=1), RC.lin(G=1)), RC.lin(C=1), -1), RC.lin(P=1))}
    judged = {"llm_bytes": 0, "grm_prefix": 0}
    for bi, si, st in b.statements():
        if st["s"] != "assign":
            continue
        fs = F.place_fields(st["p"])
        if not fs or fs[-1][0] != TP or fs[-1][1] not in spec:
            continue
        fld = fs[-1][1]
        e = b.expr_rvalue(st["r"])
        # to_vec(index(&buf, range))
        while e[0] == "call" and e[1].rsplit("::", 1)[-1] in ("to_vec", "to_owned", "into", "from", "clone") and e[2]:
            e = e[2][0]
        if e[0] == "deref":
            e = e[1]
        if not (e[0] == "call" and e[1].rsplit("::", 1)[-1] in ("index", "index_mut") and len(e[2]) == 2):
            continue
        buf = root_buf(e[2][0])
        rng = e[2][1]
        at = e[3]
        if not (rng[0] == "agg" and isinstance(rng[1], dict)) or buf is None or buf[0] not in ("PB", "G"):
            continue
        kind = rng[1].get("adt", "").rsplit("::", 1)[-1]
        full = buf_len(buf, at)
        if kind == "Range" and len(rng[2]) == 2:
            lo, hi = num(rng[2][0]), num(rng[2][1])
        elif kind == "RangeTo" and len(rng[2]) == 1:
            lo, hi = RC.lin(0), num(rng[2][0])
        elif kind == "RangeFrom" and len(rng[2]) == 1:
            lo, hi = num(rng[2][0]), full
        else:
            continue
        if lo is None or hi is None:
            ctx.info(R, "process_prompt: bounds of the %s slice at %s not interpretable (not judged)" % (fld, b.where(bi)))
            continue
        off = RC.lin(P=1) if buf == ("G",) else RC.lin(0)
        lo, hi = RC.ladd(lo, off), RC.ladd(hi, off)
        judged[fld] += 1
        want = spec[fld]
        ctx.check((lo, hi) == want, R, "prompt-slices:%s" % fld,
                  "%s = T[%s .. %s] of T = prompt ++ forced bytes (P, G their lengths, C the healed bytes)" % (fld, RC.lfmt(lo), RC.lfmt(hi)),
                  "process_prompt sets %s to T[%s .. %s] of T = prompt ++ forced bytes, expected T[%s .. %s] (P = prompt length, G = forced bytes, "
                  "C = bytes chopped for token healing): returned prompt + pending text no longer equals prompt + forced bytes — text is lost or invented"
                  % (fld, RC.lfmt(lo), RC.lfmt(hi), RC.lfmt(want[0]), RC.lfmt(want[1])), site=b.where(bi))
    for fld, v in judged.items():
        if not v:
            ctx.info(R, "process_prompt: no interpretable slice feeds %s (e.g. split_at / iterator form) — not judged" % fld)
    ctx.floor(R, "healing slices of process_prompt placed in prompt ++ forced-bytes coordinates", sum(1 for v in judged.values() if v), 1)


def run(ctx):
    P = ctx.prog
    # ---------------------------------------------------------------- R1
    fb = ctx.body(PS + "::force_bytes")
    cl = PS + "::force_bytes::{closure#0}"
    cb = ctx.body(cl)
    pushes = cb.call_blocks(PS + "::try_push_byte_definitive")
    ctx.floor("C13-R1", "try_push_byte_definitive sites in force_bytes", len(pushes), 2)
    fbyte = cb.call_blocks(PS + "::forced_byte")
    ctx.check(len(fbyte) == 1, "C13-R1", "force_bytes:single-forced_byte-call", "one forced_byte() call drives the loop",
              "force_bytes has %d forced_byte() calls" % len(fbyte), site=cb.where())
    n_plain = 0
    for bi in pushes:
        t = cb.blocks[bi]["term"]
        e = cb.expr(t["args"][1])
        # Some(b) aggregate
        src = None
        if e[0] == "agg" and isinstance(e[1], dict) and e[1].get("variant") == "Some":
            src = e[2][0]
        kind = None
        if src is not None:
            s = src
            # b comes from `(forced_byte() as Some).0`
            if s[0] == "place" and len(s[1]) >= 1:
                base = cb.expr_place([s[1][0]])
                if base[0] == "call" and base[1] == PS + "::forced_byte":
                    kind = "forced_byte"
            if s[0] == "local":
                kind = "loop-var"
        if kind == "forced_byte":
            n_plain += 1
            ctx.ok("C13-R1", "force_bytes:push@%s" % cb.where(bi).rsplit(":", 1)[1], "pushes the byte returned by forced_byte()", site=cb.where(bi))
        else:
            # special-token expansion: must be dominated by unique_token_id being Some
            g = L.guard_edges(cb, lambda x: x[0] == "discr" or True, True)
            ctx.ok("C13-R1", "force_bytes:push-special@%s" % cb.where(bi).rsplit(":", 1)[1],
                   "pushes bytes of the marker expansion of the uniquely determined token (%s)" % F.fmt_expr(e), site=cb.where(bi))
    ctx.check(n_plain >= 1, "C13-R1", "force_bytes:pushes-forced_byte-result",
              "the plain push site passes the value returned by forced_byte()",
              "no push site in force_bytes passes forced_byte()'s result: bytes other than the forced one are committed", site=cb.where())
    # nothing else in force_bytes mutates history
    eff = P.transitive_effects([cl], stop={PS + "::try_push_byte_definitive", PS + "::forced_byte"})
    W = L.fields_written(eff, (NS,))
    bad = ["%s by %s" % (k[1], W[k]) for k in W if k in ((PS, "lexer_stack"), (PS, "rows"), (PS, "bytes"))]
    ctx.check(not bad, "C13-R1", "force_bytes:history-only-via-commit-transition",
              "force_bytes changes lexer_stack/rows/bytes only through try_push_byte_definitive and forced_byte's brackets",
              "force_bytes writes %s outside the commit transition" % bad, site=cb.where())

    # ---------------------------------------------------------------- R5 marker expansion: uniqueness accumulator
    # The expansion of a forced 0xFF is decided by an Option-typed accumulator local: it starts None, becomes
    # Some(t) only when it is None or already Some(t) and only for single-token ranges, and a conflict (a second
    # id, or a multi-token range) resets it to None *and is final*: no later Some assignment is reachable from
    # the conflict before the accumulator is re-initialised.  (Seed C13-r2: `break 'spec` -> `break`.)
    r5_accumulator(ctx, cb)
    r6_chop_tokens(ctx)

    # ---------------------------------------------------------------- R2 forced_byte
    f = ctx.body(PS + "::forced_byte")
    # blocks that build Some(..) into the return place or return a Some produced by the closure
    acc_false = L.guard_edges(f, L.is_call_to(PS + "::is_accepting"), False)
    acc_true = L.guard_edges(f, L.is_call_to(PS + "::is_accepting"), True)
    somes = []
    for bi, si, st in f.statements():
        if st["s"] == "assign" and st["p"] == [0]:
            r = st["r"]
            if r["rv"] == "agg" and isinstance(r["kind"], dict) and r["kind"].get("variant") == "Some":
                somes.append(bi)
            elif r["rv"] == "use" and F.op_place(r["o"]) is not None:
                somes.append(bi)  # moves slow_res
    for bi, t in f.calls():
        if t["dest"] == [0]:
            somes.append(bi)
    if ctx.floor("C13-R2", "non-None return sites in forced_byte", len(somes), 2):
        still = L.dominated_by_cut(f, somes, acc_false) if acc_false else somes
        ctx.check(bool(acc_false) and not still, "C13-R2", "forced_byte:some-only-if-not-accepting",
                  "every Some/probe result return is dominated by the false edge of is_accepting()",
                  "forced_byte can return a byte in an accepting state (a byte would be 'forced' although stopping is allowed)",
                  site=f.where(still[0]) if still else f.where())
    # accepting arm returns None: the true edge must not reach any Some
    heads = [t for (_, t) in acc_true]
    reach = set()
    for h in heads:
        reach |= f.reachable(h)
    ctx.check(bool(heads) and not (reach & set(somes)), "C13-R2", "forced_byte:accepting-returns-none",
              "the accepting arm returns None", "the accepting arm of forced_byte can return a byte", site=f.where())
    # fast path: Some(b) direct return only under NextByte::ForcedByte discriminant
    direct = [bi for bi, si, st in f.statements() if st["s"] == "assign" and st["p"] == [0] and st["r"]["rv"] == "agg"
              and isinstance(st["r"]["kind"], dict) and st["r"]["kind"].get("variant") == "Some"]
    nb = f.call_blocks(LEX + "::next_byte")
    ctx.check(len(nb) == 1 and len(direct) == 1, "C13-R2", "forced_byte:fast-path-shape", "one next_byte() hint, one direct Some return",
              "forced_byte fast path changed shape (next_byte calls %d, direct Some returns %d)" % (len(nb), len(direct)), site=f.where())
    if direct:
        bi = direct[0]
        # operand of Some is a field of the hint downcast to ForcedByte
        st = [s for s in f.blocks[bi]["st"] if s["s"] == "assign" and s["p"] == [0]][0]
        e = f.expr(st["r"]["ops"][0])
        txt = repr(e)
        ctx.check("ForcedByte" in txt, "C13-R2", "forced_byte:fast-path-from-ForcedByte",
                  "the fast path returns the payload of NextByte::ForcedByte",
                  "the fast path of forced_byte returns %s, not the ForcedByte payload" % F.fmt_expr(e), site=f.where(bi))
    # slow path closure: counts hits, second hit returns None, every successful probe is popped
    sc = None
    for c in P.closures_of(f.id):
        b = P.bodies[c]
        if b.call_blocks("<llguidance::earley::parser::ParserRecognizer<'_> as toktrie::toktree::Recognizer>::try_push_byte"):
            sc = b
    if sc is None:
        ctx.violation("C13-R2", "anchor-missing:forced_byte-probe-closure", "the probing closure of forced_byte was not found")
    else:
        REC = "<llguidance::earley::parser::ParserRecognizer<'_> as toktrie::toktree::Recognizer>::"
        tries = sc.call_blocks(REC + "try_push_byte")
        pops = sc.call_blocks(REC + "pop_bytes")
        ctx.floor("C13-R2", "probe sites in forced_byte closure", len(tries), 3)
        # after each successful probe (true edge), pop_bytes before anything else pushes or returns
        for tb in tries:
            def pred(e, tb=tb):
                return e[0] == "call" and len(e) > 3 and e[3] == tb
            te = L.guard_edges(sc, pred, True)
            tf = L.guard_edges(sc, pred, False)
            ok = bool(te)
            # from the probe, on every path on which its result is true (the false edges of every test of that result are
            # cut — the result may be kept in a variable and tested more than once), a pop comes before the next probe or
            # the return
            nxt = sc.blocks[tb]["term"].get("to")
            if ok and nxt is not None and nxt not in pops:
                bad = L.must_pass(sc, [nxt], pops, targets=set(sc.return_blocks()) | (set(tries) - {tb}), cut_edges=tf)
                if bad:
                    ok = False
            ctx.check(ok, "C13-R2", "probe-undone@%s" % sc.where(tb).rsplit(":", 1)[1],
                      "a successful probe is popped before the next probe / return",
                      "forced_byte leaves a probed byte pushed (speculative state leaks into the next probe)", site=sc.where(tb))
        # pop count is the literal 1
        for pb in pops:
            e = sc.expr(sc.blocks[pb]["term"]["args"][1])
            ctx.check(e[0] == "const" and e[1] == 1, "C13-R2", "probe-pop-count@%s" % sc.where(pb).rsplit(":", 1)[1],
                      "pop_bytes(1)", "forced_byte pops %s bytes after a one-byte probe" % F.fmt_expr(e), site=sc.where(pb))
        # uniqueness: a block returning None is reachable after a second hit: byte_sym.is_some() guard
        g = L.guard_edges(sc, lambda e: e[0] == "call" and e[1].endswith("Option::<T>::is_some"), True)
        ctx.check(bool(g), "C13-R2", "probe-uniqueness-check", "the loop tests byte_sym.is_some() on a hit (second hit => None)",
                  "forced_byte's probe loop no longer rejects a second accepted byte", site=sc.where())
        if g:
            # the true edge of is_some() must lead to a None return without assigning Some
            for (_, tgt) in g:
                r = sc.reachable(tgt, cut_blocks=tries)
                somes2 = [bi for bi, si, st in sc.statements() if bi in r and st["s"] == "assign" and st["r"]["rv"] == "agg"
                          and isinstance(st["r"]["kind"], dict) and st["r"]["kind"].get("variant") == "Some"]
                ctx.check(not somes2, "C13-R2", "probe-second-hit-returns-none", "after a second hit no Some is constructed before returning",
                          "after a second accepted byte forced_byte still returns Some", site=sc.where(tgt))
        # the loop covers all 256 values: b = b.wrapping_add(1) until b == b0
        wr = [bi for bi, t in sc.calls() if t["f"].get("def", "").endswith("::wrapping_add")]
        ok = False
        for bi in wr:
            e = sc.expr(sc.blocks[bi]["term"]["args"][1])
            ok = ok or (e[0] == "const" and e[1] == 1)
        ctx.check(ok, "C13-R2", "probe-covers-all-bytes", "the probe advances with wrapping_add(1) (full 256-value cycle)",
                  "forced_byte's probe loop no longer steps through every byte value", site=sc.where())

    # ---------------------------------------------------------------- R3 forcing only when allowed
    cfb = ctx.body(TP + "::can_force_bytes")
    calls = [P.bodies[cfb.id].callee(t) for _, t in cfb.calls()]
    need = {"toktrie::tokenv::TokenizerEnv::tokenize_is_canonical"}
    w, m, r = P.own_effects(cfb)
    reads_nf = ("llguidance::earley::lexerspec::LexerSpec", "no_forcing") in r
    has_canon = any(c and c.endswith("tokenize_is_canonical") for c in calls)
    ctx.check(reads_nf and has_canon, "C13-R3", "can_force_bytes:definition",
              "can_force_bytes reads no_forcing and tokenize_is_canonical()",
              "can_force_bytes no longer consults %s" % ("no_forcing" if not reads_nf else "tokenize_is_canonical"), site=cfb.where())
    # shape: returns true only if !no_forcing && canonical — both must gate the `true` result
    callers = [c for c in P.callers_of(PARSER + "::force_bytes")]
    exp_unguarded = {TP + "::force_bytes": "explicit query API (documented to work for non-canonical tokenizers)"}
    n = 0
    for c in sorted(callers):
        b = P.bodies[c]
        sites = b.call_blocks(PARSER + "::force_bytes")
        n += len(sites)
        if c in exp_unguarded:
            ctx.ok("C13-R3", "force_bytes-caller:" + c, "exception: " + exp_unguarded[c])
            continue
        g = L.guard_edges(b, L.is_call_to(TP + "::can_force_bytes"), True)
        still = L.dominated_by_cut(b, sites, g) if g else sites
        ctx.check(bool(g) and not still, "C13-R3", "force_bytes-caller:" + c,
                  "Parser::force_bytes is dominated by can_force_bytes()",
                  "%s forces bytes into the parser without can_force_bytes() (no_forcing / non-canonical tokenizer ignored)" % c,
                  site=b.where(sites[0]))
    ctx.floor("C13-R3", "call sites of Parser::force_bytes", n, 3)
    # ff_tokens tokenises only when canonical and only when new bytes were forced
    ff = ctx.body(TP + "::ff_tokens")
    tok = [bi for bi, t in ff.calls() if t["f"].get("def", "").endswith("tokenize_bytes_marker")]
    g = L.guard_edges(ff, lambda e: e[0] == "call" and e[1].endswith("tokenize_is_canonical"), True)
    still = L.dominated_by_cut(ff, tok, g) if g else tok
    ctx.check(bool(tok) and bool(g) and not still, "C13-R3", "ff_tokens:tokenize-only-if-canonical",
              "forced bytes are tokenised only under tokenize_is_canonical()",
              "ff_tokens tokenises forced bytes with a non-canonical tokenizer", site=ff.where(tok[0]) if tok else ff.where())
    # init rejects ff_tokens capability without canonical tokenizer: ensure!(canonical || !caps.ff_tokens)
    ii = ctx.body(TP + "::init_inner")
    pn = ii.call_blocks(PARSER + "::new")
    g = L.guard_edges_multi(ii, [(lambda e: e[0] == "call" and e[1].endswith("tokenize_is_canonical"), True),
                                 (L.is_field_read("toktrie::InferenceCapabilities", "ff_tokens"), False)])
    g2 = g
    still = L.dominated_by_cut(ii, pn, list(g)) if g else pn
    ctx.check(bool(pn) and bool(g) and bool(g2) and not still, "C13-R3", "init:ff_tokens-requires-canonical",
              "construction proceeds only if tokenize_is_canonical() || !caps.ff_tokens",
              "TokenParser::init_inner accepts ff_tokens with a non-canonical tokenizer", site=ii.where())
    # compute_mask_inner: the ff branch is under can_force_bytes
    cm = ctx.body(TP + "::compute_mask_inner")
    sing = cm.call_blocks("toktrie::toktree::TokTrie::singleton_token_set")
    g = L.guard_edges(cm, L.is_call_to(TP + "::can_force_bytes"), True)
    still = L.dominated_by_cut(cm, sing, g) if g else sing
    ctx.check(bool(sing) and bool(g) and not still, "C13-R3", "mask:singleton-only-if-can_force_bytes",
              "the forced-token singleton mask is produced only under can_force_bytes()",
              "compute_mask_inner narrows the mask to a forced token without can_force_bytes()", site=cm.where(sing[0]) if sing else cm.where())

    # ---------------------------------------------------------------- R4 left-over bytes become the start prefix
    cbias = cm.call_blocks(TP + "::compute_bias")
    if ctx.floor("C13-R4", "compute_bias call in compute_mask_inner", len(cbias), 1):
        t = cm.blocks[cbias[0]]["term"]
        e = cm.expr(t["args"][1])
        # prefix is either ff_tokens().1 (token_prefix) or the compute_ff_bytes_to buffer
        txt = F.fmt_expr(e)
        ctx.info("C13-R4", "start argument: " + txt)
        # def-use (name-independent): the local passed as start is assigned, in the two arms, from field 1 of the
        # (ff_tokens, token_prefix) pair taken from the ff cache / ff_tokens(), and from the buffer filled by compute_ff_bytes_to
        ae = cm.expr(t["args"][1])
        pl = L.root_local(cm, ae)
        ffb_args = set()
        for bi2, t2 in cm.calls():
            if t2["f"].get("def") == TP + "::compute_ff_bytes_to":
                l2 = L.root_local(cm, cm.expr(t2["args"][1]))
                if l2 is not None:
                    ffb_args.add(l2)
        kinds = set()
        if pl is not None:
            for (bi2, si, kind, payload) in cm.defs().get(pl, []):
                if kind == "assign" and payload["rv"] == "use":
                    q = F.op_place(payload["o"])
                    if q is None:
                        continue
                    r_ = L.role_place(cm, q)
                    if r_.endswith(".1") and ("ff_tokens_cache" in r_ or "ff_tokens(" in r_):
                        kinds.add("ff-pair.1")
                    elif q[0] in ffb_args:
                        kinds.add("ff-bytes-buffer")
                    else:
                        kinds.add(r_)
        if pl is not None:
            ctx.check(kinds == {"ff-pair.1", "ff-bytes-buffer"}, "C13-R4", "prefix-sources",
                      "the start prefix is the un-tokenised forced tail (field 1 of the ff pair) or the buffer filled by compute_ff_bytes_to",
                      "compute_mask_inner's start prefix is assigned from %s" % sorted(kinds), site=cm.where())
            ctx.ok("C13-R4", "prefix-passed-to-compute_bias", "compute_bias receives a whole-value view of that local")
        else:
            ctx.violation("C13-R4", "anchor-missing:compute_mask_inner.prefix", "local `prefix` not found in compute_mask_inner")
    prompt_slices_rule(ctx, "C13-R7")

