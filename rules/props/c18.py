"""C18 — stop, end-of-sequence and accepting status are mutually consistent (structural clauses)."""
from .. import facts as F
from .. import lib as L

M = "llguidance::matcher::Matcher"
MS = "llguidance::matcher::MatcherState"
TP = "llguidance::tokenparser::TokenParser"
CON = "llguidance::constraint::Constraint"
SC = "llguidance::stop_controller::StopController"
PARSER = "llguidance::earley::parser::Parser"
CU = "llguidance::panic_utils::catch_unwind"

META = dict(
    explanation=(
        "Static analysis over MIR. Decided clauses: R1 sticky error — every pub Matcher method that "
        "reaches a state-changing TokenParser method does so inside with_inner (catch_unwind + latch), "
        "with_inner turns any Err/panic of the closure into the permanent Error state, and "
        "MatcherState::Error is never replaced by Normal after construction (reasoned exceptions: "
        "grammar_warnings, invalidate_bias_cache, deep_clone, read-only accessors); R2 stopped-state "
        "guards — consume_token, compute_mask_inner, validate_tokens_raw, validate_token and rollback "
        "start with check_initialized()/stopped(); Constraint::compute_mask_inner refuses after a stop, "
        "commit_token_inner returns the latched stop first; compute_mask_or_eos calls compute_mask only "
        "when not stopped and returns the EOS set otherwise; R3 latches — StopController.is_stopped and "
        "Constraint.pending_stop are only ever set to true, TokenParser.stop_reason is reset only in "
        "rollback under is_ok(); R4 the stop decision — check_stop stops only under is_accepting && "
        "(!can_advance || pending_eos); consume_token accepts EOS only under scan_eos() or "
        "is_accepting(); R5 the stop controller returns nothing once stopped, emits text only through "
        "valid_utf8_len-truncated / lossily converted buffers and contains no assertion on token bytes; R6 "
        "mask, commit, stop decision and rollback all consult the same full set of end-of-sequence tokens "
        "(the primary-only accessor has exactly two reasoned users)."
    ),
    not_decided=(
        "the exact moment of stopping; that the assembled text is a complete string of the grammar; stop-"
        "string arithmetic (lookahead_len, valid_utf8_len)"
    ),
)

# Matcher methods that legitimately bypass with_inner
MATCHER_EXC = {
    "grammar_warnings": "read-only; takes the lexer lock (can only panic on a mutex poisoned by an earlier contained panic)",
    "invalidate_bias_cache": "a single field store",
    "deep_clone": "&self; clone plus the lexer lock",
    "new": "constructor",
    "with_inner": "the wrapper itself",
}
TP_MUTATORS = ("consume_token", "check_stop", "rollback", "reset", "compute_mask", "compute_ff_tokens", "consume_ff_tokens", "force_bytes",
               "validate_tokens_raw", "validate_token", "is_accepting", "process_prompt", "start_without_prompt", "apply_token", "test_trigger_lexer_error")


PS_ = "llguidance::earley::parser::ParserState"


def run(ctx):
    P = ctx.prog
    wi = ctx.body(M + "::with_inner")
    # ------------------------------------------------------------------ R1 sticky error
    n = 0
    for i, b in sorted(P.bodies.items()):
        if not (i.startswith(M + "::") and b.kind == "assoc_fn"):
            continue
        name = i.rsplit("::", 1)[1]
        # state-changing TokenParser calls made directly by this method (not inside a closure given to with_inner)
        direct = []
        for bi, t in b.calls():
            d = t["f"].get("def", "")
            if (d.startswith(TP + "::") or d.startswith(PARSER + "::")) and d.rsplit("::", 1)[1] in TP_MUTATORS:
                direct.append((bi, d))
        if not direct:
            continue
        n += 1
        if name in MATCHER_EXC:
            ctx.ok("C18-R1", "matcher:" + name, "exception: " + MATCHER_EXC[name])
            continue
        ctx.violation("C18-R1", "matcher-bypasses-with_inner:" + name,
                      "Matcher::%s calls %s outside with_inner: a panic or error there is neither contained nor latched" % (name, direct[0][1]),
                      site=b.where(direct[0][0]))
    # closures passed to with_inner: all of them are in Matcher methods
    users = [c for c in P.callers_of(wi.id)]
    ctx.floor("C18-R1", "Matcher methods using with_inner", len(users), 11)
    for u in users:
        ctx.ok("C18-R1", "uses-with_inner:" + u.rsplit("::", 1)[1], "engine work runs inside with_inner")
    # with_inner: runs the closure under catch_unwind and latches Error on Err
    cu = wi.call_blocks(CU)
    ctx.check(bool(cu), "C18-R1", "with_inner:catch_unwind", "with_inner runs the closure under catch_unwind",
              "Matcher::with_inner no longer contains panics", site=wi.where())
    lat = [bi for bi, si, st in wi.statements() if st["s"] == "assign" and st["r"]["rv"] == "agg" and isinstance(st["r"]["kind"], dict)
           and st["r"]["kind"].get("adt") == MS and st["r"]["kind"].get("variant") == "Error"]
    ctx.check(bool(lat), "C18-R1", "with_inner:latches-error", "an Err from the closure replaces the state by MatcherState::Error",
              "Matcher::with_inner no longer latches the error state", site=wi.where())
    if cu and lat:
        # the Err arm of the catch_unwind result must reach the latch
        call_local = wi.blocks[cu[0]]["term"]["dest"][0]
        err_edges = []
        for bi, e, targets, otherwise in wi.switch_edges():
            if e[0] == "discr":
                base = e[1]
                if base[0] in ("place", "local") and (base[1] if base[0] == "local" else base[1][0]) == call_local or (base[0] == "call" and base[1] == CU):
                    for v, t in targets:
                        if v == 1:
                            err_edges.append((bi, t))
                    if not any(v == 1 for v, _ in targets):
                        err_edges.append((bi, otherwise))
        # path-wise: a path through an Err edge to the return passes the latch — before that edge (a later re-test of the
        # same result, e.g. for dropping it) or after it
        pre = wi.reachable(0, cut_blocks=lat)
        ok = bool(err_edges) and all(bi not in pre or t in lat or not L.must_pass(wi, [t], lat) for (bi, t) in err_edges)
        ctx.check(ok, "C18-R1", "with_inner:every-error-latches", "every Err path of with_inner passes the latch before returning",
                  "an error path of Matcher::with_inner returns without latching the Error state", site=wi.where())
    # MatcherState::Normal constructed only in Matcher::new
    normals = [x for x in L.struct_inits(P, MS) if x[3] == "Normal"]
    bad = [x[0].id for x in normals if x[0].id != M + "::new"]
    ctx.check(bool(normals) and not bad, "C18-R1", "error-latch:never-reset", "MatcherState::Normal is only constructed by Matcher::new",
              "MatcherState::Normal is (re)constructed in %s: a failed matcher can come back to life" % bad)
    ctx.floor("C18-R1", "Matcher methods reaching TokenParser mutators directly", n, 0)

    # ------------------------------------------------------------------ R2 stopped-state guards
    ci = TP + "::check_initialized"
    st = TP + "::stopped"
    for fn, work in (("consume_token", [TP + "::apply_token", PARSER + "::scan_eos"]),
                     ("compute_mask_inner", [TP + "::compute_bias", TP + "::ff_tokens", TP + "::compute_ff_bytes_to"]),
                     ("validate_tokens_raw", [PARSER + "::validate_tokens"]),
                     ("validate_token", [TP + "::validate_tokens_raw"]),
                     ("rollback", [PARSER + "::rollback"])):
        b = ctx.body(TP + "::" + fn)
        sites = b.call_blocks(lambda d: d in work)
        g = L.guard_edges_multi(b, [(L.is_call_to(ci), True), (L.is_call_to(st), False)])
        still = L.dominated_by_cut(b, sites, g) if g else sites
        ctx.check(bool(sites) and bool(g) and not still, "C18-R2", "guard:" + fn,
                  "engine work in %s is dominated by check_initialized() Ok / !stopped()" % fn,
                  "TokenParser::%s reaches %s without the stopped/initialised guard: a stopped or failed engine accepts calls" % (fn, [w.rsplit("::", 1)[1] for w in work]),
                  site=b.where(sites[0]) if sites else b.where())
    cib = ctx.body(ci)
    reads = P.own_effects(cib)[2]
    ctx.check((TP, "is_fresh") in reads and bool(cib.call_blocks(st)), "C18-R2", "check_initialized:definition",
              "check_initialized tests is_fresh and stopped()", "check_initialized no longer tests is_fresh/stopped()", site=cib.where())
    stb = ctx.body(st)
    ctx.check((TP, "stop_reason") in P.own_effects(stb)[2], "C18-R2", "stopped:definition", "stopped() reads stop_reason",
              "stopped() no longer derives from stop_reason", site=stb.where())
    cmi = ctx.body(CON + "::compute_mask_inner")
    work = cmi.call_blocks(lambda d: d in (TP + "::check_stop", TP + "::compute_mask"))
    g = L.guard_edges(cmi, lambda e: e[0] == "call" and e[1].endswith("Branch::<S>::is_stop"), False)
    still = L.dominated_by_cut(cmi, work, g) if g else work
    ctx.check(bool(work) and bool(g) and not still, "C18-R2", "constraint:compute_mask-after-stop-refused",
              "Constraint::compute_mask_inner does engine work only if the last result was not a stop",
              "Constraint::compute_mask_inner computes a mask after a stop result", site=cmi.where())
    cti = ctx.body(CON + "::commit_token_inner")
    work = cti.call_blocks(lambda d: d in (TP + "::consume_token", TP + "::consume_ff_tokens"))
    g = L.guard_edges(cti, lambda e: e[0] == "call" and e[1].endswith("Branch::<S>::is_stop"), False)
    still = L.dominated_by_cut(cti, work, g) if g else work
    ctx.check(bool(work) and bool(g) and not still, "C18-R2", "constraint:commit-after-stop-is-noop",
              "Constraint::commit_token_inner consumes tokens only if the last result was not a stop",
              "Constraint::commit_token_inner consumes a token after a stop", site=cti.where())
    # the sampling loop hands out a mask only after asking the parser *now* whether it has to stop: the mask computation is
    # dominated by the `false` outcome of a fresh TokenParser::check_stop() in the same call (a remembered flag is stale as
    # soon as the parser advanced by another route, e.g. force_tokens / a resumed run)
    cm_sites = cmi.call_blocks(TP + "::compute_mask")
    def fresh_stop(e):
        """the bool produced by parser.check_stop() in this call: the call itself, or the Continue payload of `check_stop()?`"""
        if e[0] == "call" and e[1] == TP + "::check_stop":
            return True
        if e[0] == "place" and isinstance(e[1][0], int) and len(e[1]) > 1:
            base = cmi.expr_place([e[1][0]])
            return (base[0] == "call" and base[1].endswith("Try>::branch") and base[2] and base[2][0][0] == "call" and base[2][0][1] == TP + "::check_stop")
        return False
    g_cs = L.guard_edges(cmi, fresh_stop, False)
    still = L.dominated_by_cut(cmi, cm_sites, g_cs) if g_cs else cm_sites
    ctx.check(bool(cm_sites) and bool(g_cs) and not still, "C18-R4", "constraint:mask-only-after-fresh-check_stop",
              "Constraint::compute_mask_inner computes a mask only on the false outcome of parser.check_stop() evaluated in the same call",
              "Constraint::compute_mask_inner decides between stop and mask without calling parser.check_stop() (e.g. from a remembered "
              "pending_stop flag): after force_tokens() / a resumed run ending in EOS it returns an ordinary mask and accepts further tokens",
              site=cmi.where(still[0]) if still else cmi.where())
    for fn, inner in (("compute_mask", "compute_mask_inner"), ("commit_token", "commit_token_inner")):
        b = ctx.body(CON + "::" + fn)
        ctx.check(bool(b.call_blocks(CON + "::catch_unwind")), "C18-R2", "constraint:%s-contained" % fn, "runs under Constraint::catch_unwind",
                  "Constraint::%s no longer runs under catch_unwind" % fn, site=b.where())
    # compute_mask_or_eos
    cl = None
    for c in P.closures_of(M + "::compute_mask_or_eos"):
        cl = P.bodies[c]
    if cl is None:
        ctx.violation("C18-R2", "anchor-missing:compute_mask_or_eos closure", "closure of compute_mask_or_eos not found")
    else:
        cm = cl.call_blocks(TP + "::compute_mask")
        eos = cl.call_blocks("toktrie::toktree::TokTrie::eos_token_set")
        def sr_ne(e):
            if e[0] == "call" and e[1] == TP + "::stopped":
                return True  # TokenParser::stopped() is `stop_reason != NotStopped` (checked below)
            return e[0] == "call" and e[1].endswith("::ne") and any("stop_reason" in repr(L.value_of(cl, a)) for a in e[2])
        ne = L.guard_edges(cl, sr_ne, False)
        still = L.dominated_by_cut(cl, cm, ne) if ne else cm
        ctx.check(bool(cm) and bool(ne) and not still, "C18-R2", "compute_mask_or_eos:mask-only-if-not-stopped",
                  "compute_mask is called only when stop_reason == NotStopped",
                  "compute_mask_or_eos asks a stopped parser for a mask", site=cl.where())
        te = L.guard_edges(cl, sr_ne, True)
        # the constant compared with is NotStopped
        proms = P.promoted_of(cl.id)
        if cl.call_blocks(TP + "::stopped"):
            proms = P.promoted_of(TP + "::stopped")
            sb_ = ctx.body(TP + "::stopped")
            ctx.check(L._returns_guard_value(sb_, [(lambda e: e[0] == "call" and e[1].endswith("::ne") and any(
                L.is_field_read(TP, "stop_reason")(L.strip_views(a)) for a in e[2]), True)]), "C18-R2", "stopped():definition",
                "TokenParser::stopped() returns stop_reason != <const>", "TokenParser::stopped() is no longer `stop_reason != NotStopped`", site=sb_.where())
        ctx.check(any("NotStopped" in repr(pb.rec["blocks"]) for pb in proms), "C18-R2", "compute_mask_or_eos:compares-with-NotStopped",
                  "stop_reason is compared with StopReason::NotStopped", "compute_mask_or_eos no longer compares stop_reason with NotStopped", site=cl.where())
        still = L.dominated_by_cut(cl, eos, te) if te else eos
        ctx.check(bool(eos) and bool(te) and not still, "C18-R2", "compute_mask_or_eos:eos-only-if-stopped",
                  "the EOS-only mask is returned only when stopped", "compute_mask_or_eos returns the EOS-only mask for a running parser", site=cl.where())

    # ------------------------------------------------------------------ R3 latches
    for adt, fld, setv, allowed_resetters in ((SC, "is_stopped", 1, set()), (CON, "pending_stop", 1, set())):
        for b, bi, r in L.assignments_to(P, adt, fld):
            e = b.expr_rvalue(r)
            ok = e[0] == "const" and e[1] == setv
            ctx.check(ok or b.id in allowed_resetters, "C18-R3", "latch:%s.%s@%s" % (adt.rsplit("::", 1)[1], fld, b.id.rsplit("::", 1)[1]),
                      "only ever set to true", "%s assigns %s.%s := %s: a stop can be undone" % (b.id, adt.rsplit("::", 1)[1], fld, F.fmt_expr(e)), site=b.where(bi))
        inits = L.struct_inits(P, adt)
        for b, bi, fm, _ in inits:
            e = b.expr(fm[fld])
            ctx.check(e[0] == "const" and e[1] == 0, "C18-R3", "latch-init:%s.%s@%s" % (adt.rsplit("::", 1)[1], fld, b.id.rsplit("::", 1)[1]),
                      "initialised to false", "%s initialises %s to %s" % (b.id, fld, F.fmt_expr(e)), site=b.where(bi))
    # stop_reason writers
    writers = {}
    for b, bi, r in L.assignments_to(P, TP, "stop_reason"):
        writers.setdefault(b.id, []).append((bi, b.expr_rvalue(r)))
    exp = {TP + "::stop", TP + "::rollback"}
    ctx.check(set(writers) == exp, "C18-R3", "stop_reason:writers", "stop_reason is assigned only by stop() and rollback()",
              "stop_reason is assigned by %s" % sorted(writers))
    for bi, e in writers.get(TP + "::rollback", []):
        ctx.check(e[0] == "const" and "NotStopped" in str(e[3]) or (e[0] == "agg"), "C18-R3", "stop_reason:rollback-resets-to-NotStopped",
                  "rollback resets to NotStopped (under is_ok(), C12-R2)", "rollback assigns stop_reason := %s" % F.fmt_expr(e))
    # stop() sets the reason it is given
    sb = ctx.body(TP + "::stop")
    for bi, e in writers.get(sb.id, []):
        ctx.check(e[0] in ("place", "local") and (e[1] if e[0] == "local" else e[1][0]) == 3, "C18-R3", "stop:sets-given-reason",
                  "stop() stores its `reason` argument", "stop() stores %s" % F.fmt_expr(e), site=sb.where(bi))
    # every caller of stop() passes a real stop reason (never NotStopped)
    n_stop = 0
    for c in P.callers_of(sb.id):
        cb = P.bodies[c]
        for bi in cb.call_blocks(sb.id):
            n_stop += 1
            e = cb.expr(cb.blocks[bi]["term"]["args"][2])
            ctx.check("NotStopped" not in repr(e), "C18-R3", "stop-call@%s:%s" % (c.rsplit("::", 1)[1], cb.where(bi).rsplit(":", 1)[1]),
                      "stop() is called with a stop reason", "%s calls stop(.., NotStopped)" % c, site=cb.where(bi))
    ctx.floor("C18-R3", "calls of TokenParser::stop", n_stop, 8)

    # ------------------------------------------------------------------ R4 stop decision inputs
    cs = ctx.body(TP + "::check_stop")
    stops = cs.call_blocks(sb.id)
    if ctx.floor("C18-R4", "stop() call in check_stop", len(stops), 1):
        need = {"is_accepting": TP + "::is_accepting", "can_advance": PARSER + "::can_advance"}
        calls = [cs.callee(t) for _, t in cs.calls()]
        for k, d in need.items():
            ctx.check(d in calls, "C18-R4", "check_stop:uses:" + k, "check_stop consults %s()" % k, "check_stop no longer consults %s()" % k, site=cs.where())
        # stop only under is_accepting: the boolean switched on right before stop() (`parser_done`, found by structure, not
        # by name) can only be true on paths where is_accepting() returned true
        acc = L.guard_edges(cs, L.is_call_to(TP + "::is_accepting"), True)
        ok = False
        for bi, e, targets, otherwise in cs.switch_edges():
            cur, pol = F.peel_polarity(e)
            if cur[0] != "local" or cs.local_ty(cur[1]) != "bool":
                continue
            tt, ft = F.bool_targets(targets, otherwise)
            edges = [(bi, t) for t in (tt if pol else ft)]
            if L.dominated_by_cut(cs, stops, edges):
                continue  # this switch does not guard stop()
            pd = cur[1]
            truthy = []
            for (dbi, si, kind, payload) in cs.defs().get(pd, []):
                if kind == "assign" and payload["rv"] == "use" and payload["o"].get("iv") == "0":
                    continue
                truthy.append(dbi)
            ok = bool(acc) and bool(truthy) and not L.dominated_by_cut(cs, truthy, acc)
        ctx.check(ok, "C18-R4", "check_stop:stop-only-if-accepting", "stop() is reached only if parser_done, which requires is_accepting",
                  "check_stop can stop the engine in a non-accepting state", site=cs.where(stops[0]))
    ct = ctx.body(TP + "::consume_token")
    push = [bi for bi, (w, m, r) in P.block_effects(ct).items() if any(x[0] == (TP, "llm_tokens") and x[1].endswith("::push") for x in m)]
    if ctx.floor("C18-R4", "EOS push in consume_token", len(push), 1):
        g = L.guard_edges(ct, L.is_call_to(TP + "::is_accepting"), True)
        still = L.dominated_by_cut(ct, push, g) if g else push
        ctx.check(bool(g) and not still, "C18-R4", "consume_token:eos-only-if-accepting", "an unscanned EOS is accepted only under is_accepting()",
                  "consume_token accepts EOS in a non-accepting state", site=ct.where(push[0]))
        g = L.guard_edges(ct, lambda e: e[0] == "call" and e[1].endswith("::contains") and "eos_tokens" in repr(e), True)
        still = L.dominated_by_cut(ct, push, g) if g else push
        ctx.check(bool(g) and not still, "C18-R4", "consume_token:eos-arm-only-for-eos", "the EOS arm is entered only for EOS tokens",
                  "consume_token's EOS shortcut applies to non-EOS tokens", site=ct.where(push[0]))

    # ------------------------------------------------------------------ R7 validate_tokens agrees with is_accepting on EOS
    # TokenParser::is_accepting is `!has_ff_bytes() && parser.is_accepting()`: with forced bytes pending the sequence may not
    # end.  The speculative validation walk must say the same: in its EOS arm the "EOS accepted" result (index + 1) is
    # produced only when every pending forced byte has been supplied (`applied_idx == bytes.len()`) AND the parser accepts.
    vt = ctx.body(PS_ + "::validate_tokens::{closure#0}")
    acc = L.guard_edges(vt, L.is_call_to(PS_ + "::is_accepting_inner"), True)
    def no_pending(e):
        if not (e[0] == "bin" and e[1] == "Eq"):
            return False
        t = F.fmt_expr(e)
        return "len(" in t and ".bytes" in t
    nop = L.guard_edges(vt, no_pending, True)
    # the EOS arm: reached on the true edge of eos_tokens().contains(tok)
    eos_t = L.guard_edges(vt, lambda e: e[0] == "call" and e[1].endswith("::contains") and "eos_tokens" in F.fmt_expr(e), True)
    arm = set()
    for (_, t_) in eos_t:
        arm |= vt.reachable(t_, cut_blocks=vt.call_blocks(lambda d: d.endswith("::try_push_byte")))
    plus1 = []
    for bi, si, st in vt.statements():
        r = st.get("r", {})
        if bi in arm and st["s"] == "assign" and r.get("rv") == "bin" and r["op"].startswith("Add") and isinstance(r.get("b"), dict) and F.op_const_int(r["b"]) == 1:
            plus1.append(bi)
    if ctx.floor("C18-R7", "`index + 1` result in the EOS arm of validate_tokens", len(plus1), 1):
        ctx.check(bool(acc) and not L.dominated_by_cut(vt, plus1, acc), "C18-R7", "validate:eos-only-if-accepting",
                  "EOS validates only when the parser is accepting", "validate_tokens accepts EOS in a non-accepting state", site=vt.where(plus1[0]))
        ctx.check(bool(nop) and not L.dominated_by_cut(vt, plus1, nop), "C18-R7", "validate:eos-only-without-pending-forced-bytes",
                  "EOS validates only when all forced bytes have been supplied (applied_idx == bytes.len())",
                  "validate_tokens accepts EOS while forced bytes are still pending: validate_tokens([EOS]) == 1 although is_accepting() is false "
                  "and the mask excludes EOS; try_consume_tokens then drives the matcher into the error state", site=vt.where(plus1[0]))

    # ------------------------------------------------------------------ R6 one EOS set for every decision
    # a vocabulary can have several end-of-sequence tokens; mask, commit, stop decision and rollback must agree on the set
    for fn in ("check_stop", "consume_token", "rollback", "compute_mask_inner"):
        b = ctx.body(TP + "::" + fn)
        scope = [b] + [P.bodies[c] for c in P.closures_of(b.id) if c in P.bodies]
        reads = set()
        for sb in scope:
            reads |= P.own_effects(sb)[2]
        ctx.check((TP, "eos_tokens") in reads, "C18-R6", "eos-set:" + fn, "%s decides end-of-sequence from TokenParser.eos_tokens (the full set)" % fn,
                  "TokenParser::%s no longer consults the full EOS token set (eos_tokens): with a multi-EOS vocabulary the mask/commit and the "
                  "stop decision disagree (a secondary EOS is accepted but no stop is reported)" % fn, site=b.where())
    prim = set(c for c in P.callers_of("toktrie::toktree::TokTrie::eos_token") if c.startswith("llguidance::"))
    PRIM_OK = {
        "llguidance::earley::parser::ParserState::compute_bias": "EOS-terminated gen() lexemes are ended by the primary EOS token",
        "llguidance::ffi_par::par_compute_mask_inner::{closure#0}::{closure#0}": "batch API marks the primary EOS bit of a stopped constraint",
    }
    for c in sorted(prim):
        ctx.check(c in PRIM_OK, "C18-R6", "primary-eos-only:" + c.replace("llguidance::", ""), PRIM_OK.get(c, ""),
                  "%s decides on the *primary* EOS token only (TokTrie::eos_token()) while mask and commit honour every EOS token: "
                  "the sites disagree for vocabularies with several EOS tokens" % c, site=P.bodies[c].where())
    ii = ctx.body(TP + "::init_inner")
    ctx.check(bool(ii.call_blocks("toktrie::toktree::TokTrie::eos_tokens")), "C18-R6", "eos-set:initialised-from-trie",
              "TokenParser.eos_tokens is initialised from TokTrie::eos_tokens()", "init_inner no longer takes the EOS set from the trie", site=ii.where())

    # ------------------------------------------------------------------ R5 stop controller
    c = ctx.body(SC + "::commit_token")
    work = c.call_blocks(SC + "::commit_token_u8")
    g = L.guard_edges(c, L.is_field_read(SC, "is_stopped"), False)
    still = L.dominated_by_cut(c, work, g) if g else work
    ctx.check(bool(work) and bool(g) and not still, "C18-R5", "stop-controller:nothing-after-stop",
              "commit_token does work only when not stopped (returns the empty string otherwise)",
              "StopController::commit_token processes tokens after it has stopped", site=c.where())
    lossy = c.call_blocks(lambda d: d.endswith("String::from_utf8") or d.endswith("String::from_utf8_lossy"))
    ctx.check(len(lossy) >= 2, "C18-R5", "stop-controller:utf8-conversion", "output goes through from_utf8 / from_utf8_lossy",
              "StopController::commit_token no longer converts its bytes through the checked UTF-8 conversions", site=c.where())
    u8b = ctx.body(SC + "::commit_token_u8")
    vl = u8b.call_blocks("llguidance::stop_controller::valid_utf8_len")
    ctx.floor("C18-R5", "valid_utf8_len truncations in commit_token_u8", len(vl), 2)
    pan = [(bi, t["f"]["def"]) for bi, t in u8b.calls() if t["f"].get("def", "").startswith("core::panicking::")
           and not t["f"]["def"].endswith("panic_bounds_check")]
    ctx.check(not pan, "C18-R5", "stop-controller:no-assert-on-token-bytes", "no assertion on arbitrary token bytes",
              "commit_token_u8 asserts on the automaton state reached by arbitrary token bytes (%s): a token that is not valid UTF-8 "
              "panics" % (pan[0][1] if pan else ""), site=u8b.where(pan[0][0]) if pan else None)
    # stop tokens latch
    g = L.guard_edges(u8b, lambda e: e[0] == "call" and e[1].endswith("::contains") and "stop_tokens" in repr(e), True)
    setb = [bi for b_, bi, r in L.assignments_to(P, SC, "is_stopped") if b_.id == u8b.id]
    ctx.check(bool(g) and any(s in u8b.reachable(t) for (_, t) in g for s in setb), "C18-R5", "stop-controller:stop-token-stops",
              "a stop token sets is_stopped", "a stop token no longer stops the controller", site=u8b.where())
