"""C06 — output generated under a JSON-schema constraint always validates (structural clauses)."""
import ast
import re

from .. import facts as F
from .. import lib as L

JS = "llguidance::json::schema::"
JC = "llguidance::json::compiler::Compiler"
NUM = "llguidance::json::numeric::"

META = dict(
    explanation=(
        "Static analysis: table agreement over literal tables extracted from the compiled program, plus "
        "dominance. Decided clauses: R1 every keyword in schema::IMPLEMENTED has a reader — a literal key "
        "look-up in compile_numeric/string/array/object/contents_simple or an arm of Schema::apply — and is in "
        "the in-place applicator list iff it is an apply arm; R2 nothing that validates is ignored: "
        "META_AND_ANNOTATIONS is disjoint from the Draft 2020-12 applicator / validation / unevaluated "
        "vocabularies (reference list embedded in the checker), IMPLEMENTED and META are disjoint, "
        "is_valid_keyword is exactly `!known || IMPLEMENTED || META`, and compile_contents_map proceeds "
        "past unimplemented keywords only under options.lenient; R3 the documented fall-backs are taken only "
        "under their option (oneOf -> anyOf under coerce_one_of / lenient); R4 the multipleOf intersection "
        "cannot overflow: Decimal::checked_lcm contains no unchecked multiplication and its failure is "
        "propagated as a schema error; R5 in gen_json_object every declared property name is reserved (pushed to "
        "the taken-names list that the additionalProperties / patternProperties key lexemes exclude) on every path "
        "through the property loop, including the arm that skips an unsatisfiable optional property."
    ),
    not_decided="that the generated grammar admits only valid instances (the semantics of every keyword combination)",
)
META["explanation"] += (
    " Added after the independent seeding rounds 2-3: " "R5 every property name is reserved before additional properties are built. R6 bounded_sequence (always emits one item) is called only under `max != Some(0)` for the very value passed as max. R7 object intersection looks each operand's property keys up in the OTHER operand. R8 memoising functions key their maps by their own arguments (value-preserving conversions only). R9 (round 4, adopted from C08-R1 / C08-R6 / C07-R5) bounds survive Schema::intersect, multipleOf is never dropped, property-name literals come from serde_json's serialiser."
)

# JSON Schema Draft 2020-12: keywords that assert or apply (must never be treated as annotations)
DRAFT_VALIDATING = {
    # applicator
    "allOf", "anyOf", "oneOf", "not", "if", "then", "else", "dependentSchemas", "prefixItems", "items", "contains",
    "properties", "patternProperties", "additionalProperties", "propertyNames",
    # unevaluated
    "unevaluatedItems", "unevaluatedProperties",
    # validation
    "type", "enum", "const", "multipleOf", "maximum", "exclusiveMaximum", "minimum", "exclusiveMinimum", "maxLength", "minLength",
    "pattern", "maxItems", "minItems", "uniqueItems", "maxContains", "minContains", "maxProperties", "minProperties", "required",
    "dependentRequired",
    # core references
    "$ref", "$dynamicRef", "$recursiveRef",
    # older drafts
    "additionalItems", "dependencies", "format",
}
APPLY_ARMS = {"const", "enum", "allOf", "anyOf", "oneOf", "$ref"}
READERS = {
    "compile_numeric": {"minimum", "maximum", "exclusiveMinimum", "exclusiveMaximum", "multipleOf"},
    "compile_string": {"minLength", "maxLength", "pattern", "format"},
    "compile_array": {"items", "additionalItems", "prefixItems", "minItems", "maxItems"},
    "compile_object": {"properties", "additionalProperties", "patternProperties", "required", "minProperties", "maxProperties"},
    "compile_contents_simple": {"type"},
}


def strs_of(P, prefix):
    """string literals (as written in the source) appearing in bodies whose id starts with prefix, incl. closures and promoteds"""
    out = []

    def walk(x):
        if isinstance(x, dict):
            if x.get("ty") == "&str" and ("str" in x or str(x.get("k", "")).startswith('"')):
                if "str" in x:
                    out.append(x["str"])
                else:
                    try:
                        out.append(ast.literal_eval(x["k"]))
                    except Exception:
                        pass
            for v in x.values():
                walk(v)
        elif isinstance(x, list):
            for v in x:
                walk(v)

    for i, b in P.bodies.items():
        if i == prefix or i.startswith(prefix + "::{"):
            walk(b.rec["blocks"])
    return out


def run(ctx):
    P = ctx.prog
    impl = strs_of(P, JS + "IMPLEMENTED")
    meta = strs_of(P, JS + "META_AND_ANNOTATIONS")
    ctx.floor("C06-R1", "IMPLEMENTED keywords", len(impl), 27)
    ctx.floor("C06-R2", "META_AND_ANNOTATIONS keywords", len(meta), 15)
    # ------------------------------------------------------------------ R1 implemented => read
    read_by = {}
    for fn in READERS:
        for s in set(strs_of(P, JS + fn)):
            read_by.setdefault(s, set()).add(fn)
    apply_strs = set(strs_of(P, JS + "Schema::apply"))
    inplace = set(s for s in strs_of(P, JS + "compile_contents_map") if s in APPLY_ARMS)
    for kw in impl:
        if kw in APPLY_ARMS:
            ok = kw in apply_strs and kw in inplace
            ctx.check(ok, "C06-R1", "reader:" + kw, "handled by an arm of Schema::apply and listed as in-place applicator",
                      "keyword `%s` is declared IMPLEMENTED but %s: the schema is accepted and the keyword silently ignored" % (
                          kw, "has no arm in Schema::apply" if kw not in apply_strs else "is missing from in_place_applicator_kwds"),
                      site=P.bodies[JS + "Schema::apply"].where())
        else:
            fns = read_by.get(kw, set())
            ctx.check(bool(fns), "C06-R1", "reader:" + kw, "read by %s" % sorted(fns),
                      "keyword `%s` is declared IMPLEMENTED but no compile_* function reads it: schemas using it are accepted and the "
                      "keyword silently ignored (output can violate the schema)" % kw, site=P.bodies[JS + "IMPLEMENTED"].where())
    # each reader table entry must be implemented (a read keyword that is not IMPLEMENTED is unreachable config)
    for fn, kws in READERS.items():
        have = set(strs_of(P, JS + fn))
        missing = kws - have
        ctx.check(not missing, "C06-R1", "reads:" + fn, "%s reads %s" % (fn, sorted(kws)),
                  "%s no longer reads keyword(s) %s" % (fn, sorted(missing)), site=P.bodies[JS + fn].where() if JS + fn in P.bodies else None)
    extra_apply = (apply_strs & DRAFT_VALIDATING) - APPLY_ARMS
    ctx.check(not extra_apply, "C06-R1", "apply-arms", "Schema::apply has arms exactly for %s" % sorted(APPLY_ARMS),
              "Schema::apply has new arms %s that are not classified" % sorted(extra_apply))

    # ------------------------------------------------------------------ R2 nothing that validates is ignored
    bad = sorted(set(meta) & DRAFT_VALIDATING)
    ctx.check(not bad, "C06-R2", "meta-disjoint-from-validating", "no applicator/validation keyword is in META_AND_ANNOTATIONS",
              "META_AND_ANNOTATIONS contains validating keyword(s) %s: they are skipped as annotations and the constraint admits invalid output" % bad,
              site=P.bodies[JS + "META_AND_ANNOTATIONS"].where())
    both = sorted(set(meta) & set(impl))
    ctx.check(not both, "C06-R2", "meta-disjoint-from-implemented", "IMPLEMENTED and META_AND_ANNOTATIONS are disjoint",
              "keyword(s) %s are both IMPLEMENTED and META (the loop in compile_contents_map skips META keywords)" % both)
    unknown_impl = sorted(set(impl) - DRAFT_VALIDATING)
    ctx.check(not unknown_impl, "C06-R2", "implemented-are-validating", "every IMPLEMENTED keyword is a Draft 2020-12 applicator/validation keyword",
              "IMPLEMENTED contains %s which the reference vocabulary does not know" % unknown_impl)
    ivk = None
    for i in P.bodies:
        if i.endswith("::is_valid_keyword") and "json" in i:
            ivk = P.bodies[i]
    if ivk is None:
        ctx.violation("C06-R2", "anchor-missing:is_valid_keyword", "Context::is_valid_keyword not found")
    else:
        reads_tables = {"IMPLEMENTED": False, "META_AND_ANNOTATIONS": False}
        txt = repr(ivk.rec["blocks"]) + "".join(repr(pb.rec["blocks"]) for pb in P.promoted_of(ivk.id))
        for k in reads_tables:
            reads_tables[k] = (JS + k) in txt
        known = any(t["f"].get("def", "").endswith("Draft::is_known_keyword") for _, t in ivk.calls())
        ctx.check(all(reads_tables.values()) and known, "C06-R2", "is_valid_keyword:definition",
                  "is_valid_keyword consults is_known_keyword, IMPLEMENTED and META_AND_ANNOTATIONS",
                  "is_valid_keyword no longer consults %s" % ([k for k, v in reads_tables.items() if not v] + ([] if known else ["is_known_keyword"])),
                  site=ivk.where())
        # `true` only via one of the three disjuncts: a `false` result needs all three to fail
        t_rets = [bi for bi, si, st in ivk.statements() if st["s"] == "assign" and st["p"] == [0] and st["r"]["rv"] == "use" and st["r"]["o"].get("iv") == "1"]
        g = L.guard_edges_multi(ivk, [(lambda e: e[0] == "call" and e[1].endswith("is_known_keyword"), False),
                                      (lambda e: e[0] == "call" and e[1].endswith("::contains"), True)])
        still = L.dominated_by_cut(ivk, t_rets, g) if g else t_rets
        ctx.check(bool(t_rets) and bool(g) and not still, "C06-R2", "is_valid_keyword:true-only-if-classified",
                  "`true` is returned only for unknown, implemented or annotation keywords",
                  "is_valid_keyword can return true for a known keyword that is neither implemented nor an annotation", site=ivk.where())
    cm = ctx.body(JS + "compile_contents_map")
    # the keyword loop is reached past unimplemented keys only under `lenient`
    loop_work = cm.call_blocks(lambda d: d in (JS + "Schema::apply", JS + "compile_contents_simple"))
    g = L.guard_edges_multi(cm, [(lambda e: e[0] == "call" and e[1].endswith("::is_empty") and True, True),
                                 (L.is_field_read("llguidance::json::schema::SchemaBuilderOptions", "lenient"), True)])
    lenient_reads = [f for f in P.own_effects(cm)[2] if f[1] == "lenient"]
    still = L.dominated_by_cut(cm, loop_work, g) if g else loop_work
    ctx.check(bool(loop_work) and bool(lenient_reads), "C06-R2", "unimplemented-keys:lenient-only:present",
              "compile_contents_map consults options.lenient for unimplemented keywords",
              "compile_contents_map no longer consults options.lenient", site=cm.where())
    if lenient_reads:
        lf = lenient_reads[0]
        g = L.guard_edges_multi(cm, [(lambda e: e[0] == "call" and e[1].endswith("Vec::<T, A>::is_empty"), True), (L.is_field_read(lf[0], lf[1]), True)])
        still = L.dominated_by_cut(cm, loop_work, g) if g else loop_work
        ctx.check(bool(g) and not still, "C06-R2", "unimplemented-keys:lenient-only",
                  "schema compilation continues only if there are no unimplemented keywords, or under options.lenient",
                  "compile_contents_map compiles a schema with unimplemented (known) keywords without options.lenient: they are silently ignored",
                  site=cm.where())
    ivc = cm.call_blocks(lambda d: d.endswith("::is_valid_keyword"))
    cl_ivc = any(P.bodies[c].call_blocks(lambda d: d.endswith("::is_valid_keyword")) for c in P.closures_of(cm.id) if c in P.bodies)
    ctx.check(bool(ivc) or cl_ivc, "C06-R2", "unimplemented-keys:filter-uses-is_valid_keyword", "unimplemented keys are found with is_valid_keyword",
              "compile_contents_map no longer filters keys with is_valid_keyword", site=cm.where())

    # ------------------------------------------------------------------ R3 documented fall-backs only under their option
    poo = P.bodies.get(JC + "::process_one_of")
    if poo is None:
        ctx.violation("C06-R3", "anchor-missing:process_one_of", "Compiler::process_one_of not found")
    else:
        sites = poo.call_blocks(JC + "::process_any_of")
        reads = P.own_effects(poo)[2]
        opt = [f for f in reads if f[1] in ("coerce_one_of", "lenient")]
        ctx.floor("C06-R3", "oneOf->anyOf fall-back sites", len(sites), 1)
        if sites and opt:
            # every fall-back site is either under an option, or follows a disjointness proof (is_verifiably_disjoint_from)
            specs = [(L.is_field_read(f[0], f[1]), True) for f in opt]
            g = L.guard_edges_multi(poo, specs)
            disj = poo.call_blocks(lambda d: d.endswith("is_verifiably_disjoint_from"))
            cl_disj = [c for c in P.closures_of(poo.id) if c in P.bodies and P.bodies[c].call_blocks(lambda d: d.endswith("is_verifiably_disjoint_from"))]
            still = L.dominated_by_cut(poo, sites, g) if g else sites
            ok = not still
            ctx.check(ok, "C06-R3", "oneOf-coercion-guarded",
                      "oneOf is compiled as anyOf only under coerce_one_of/lenient or after a verified-disjointness test",
                      "process_one_of falls back to anyOf without the option and without a disjointness proof: output matching two "
                      "alternatives violates oneOf", site=poo.where(sites[0]))
        else:
            ctx.check(bool(opt), "C06-R3", "oneOf-coercion-guarded", "options consulted", "process_one_of no longer consults coerce_one_of/lenient", site=poo.where())

    # ------------------------------------------------------------------ R5 every declared property name stays reserved
    # In gen_json_object every name listed in properties/required is pushed (JSON-quoted) into the list of taken names —
    # also when the property is skipped because its schema is unsatisfiable. That list is what the additionalProperties /
    # patternProperties key lexemes exclude; a name that is not reserved can be emitted through those branches with a value
    # its own schema forbids.
    go = ctx.body(JC + "::gen_json_object")
    nxt = [bi for bi, t in go.calls() if t["f"].get("def", "").endswith("::next") and "Chain" in t["f"].get("def", "")]
    resv = [bi for bi, t in go.calls() if t["f"].get("def", "").endswith("Vec::<T, A>::push") and ("json_dumps" in repr(go.expr(t["args"][1])) or "serde_json::" in repr(go.expr(t["args"][1])))]
    if ctx.floor("C06-R5", "property-name loop in gen_json_object", len(nxt), 1) and ctx.floor("C06-R5", "pushes of the quoted property name", len(resv), 1):
        n = nxt[0]
        some = []
        for bi, e, targets, otherwise in go.switch_edges():
            if e[0] == "discr" and e[1][0] == "call" and len(e[1]) > 3 and e[1][3] == n:
                some = [t for v, t in targets if v == 1] or [otherwise]
        bad = L.must_pass(go, some, resv, targets=[n]) if some else ["?"]
        ctx.check(bool(some) and not bad, "C06-R5", "gen_json_object:every-name-reserved",
                  "every loop iteration that continues reserves the quoted property name (also the skipped-unsatisfiable arm)",
                  "gen_json_object has a path through the property loop that does not push the property name into the taken names: the key "
                  "can then be produced by the additionalProperties/patternProperties branch with a value its own schema forbids",
                  site=go.where(n))
        # both reservation pushes go to the same list, and that list feeds the exclusion regex
        tgt = set(L.root_local(go, go.expr(go.blocks[bi]["term"]["args"][0])) for bi in resv)
        ctx.check(len(tgt) == 1, "C06-R5", "gen_json_object:one-reservation-list", "all reservations go to one list",
                  "property names are reserved in %d different lists" % len(tgt), site=go.where(resv[0]))

    # ------------------------------------------------------------------ R4 multipleOf intersection cannot overflow
    lcm = ctx.body(NUM + "Decimal::checked_lcm")
    ovf = [(bi, lcm.blocks[bi]["term"]["msg"]) for bi in lcm.live_blocks() if lcm.blocks[bi]["term"]["t"] == "assert" and lcm.blocks[bi]["term"]["msg"].startswith("Overflow")]
    ctx.check(not ovf, "C06-R4", "checked_lcm:no-unchecked-arithmetic", "checked_lcm has no overflow-prone operation",
              "Decimal::checked_lcm contains unchecked arithmetic (%s): allOf[multipleOf a, multipleOf b] can wrap and admit non-multiples" % [m for _, m in ovf],
              site=lcm.where(ovf[0][0]) if ovf else None)
    isect = ctx.body(JS + "Schema::intersect")
    sites = isect.call_blocks(NUM + "Decimal::checked_lcm")
    ctx.check(bool(sites), "C06-R4", "intersect:uses-checked_lcm", "Schema::intersect combines multipleOf with checked_lcm",
              "Schema::intersect no longer uses the checked lcm", site=isect.where())
    for bi in sites:
        fail = L.failure_edges_of_call(isect, bi)
        e_ok = [x for x in isect.calls() if x[0] in isect.reachable(bi) and x[1]["f"].get("def", "").endswith("Option::<T>::ok_or_else")]
        ctx.check(bool(e_ok), "C06-R4", "intersect:lcm-failure-is-error", "a non-representable lcm becomes a schema error (ok_or_else + ?)",
                  "the None result of checked_lcm is not turned into an error", site=isect.where(bi))
    unchecked = [c for c in P.callers_of(NUM + "Decimal::lcm") if "test" not in c]
    ctx.check(not unchecked, "C06-R4", "no-caller-of-panicking-lcm", "the panicking Decimal::lcm has no non-test caller",
              "Decimal::lcm (panics on overflow) is called from %s" % unchecked)

    # ------------------------------------------------------------------ R6 "at least one" helpers need a non-zero budget
    bounded_sequence_guard(ctx, "C06-R6")
    # R7: allOf / sibling applicators: a property present in both operands gets both constraints (shared with C07-R3)
    from . import c07 as _c07
    _c07.intersect_operands(ctx, "C06-R7")
    # R8: memo tables of the grammar builders are keyed by the full argument (property names, definitions, literals)
    from . import c09 as _c09
    _c09.memo_keys_lossless(ctx, "C06-R8")
    # R9 (round 4, adopted): constraints that must not get lost on the way to the grammar — bounds through Schema::intersect
    # (C08-R1: max/opt_min of the same field of both operands, no Ord::min over Options), multipleOf through json_number /
    # json_int (C08-R6), property names through serde_json's serialiser (C07-R5)
    ctx.import_clauses("c08", "C08-R1", ["intersect:", "option-min"], "C06-R9")
    ctx.import_clauses("c08", "C08-R6", ["multipleOf:"], "C06-R9")
    ctx.import_clauses("c07", "C07-R5", ["key-literal:"], "C06-R9")


def bounded_sequence_guard(ctx, R):
    """`bounded_sequence(item, min, max)` always emits at least one item (`max.saturating_sub(1)` maps Some(0) and
    Some(1) to the same repetition), so every call must be dominated by `max != Some(0)` *for the very value it passes
    as max* — e.g. the budget left after the required properties, not the schema's raw maxProperties."""
    P = ctx.prog
    JC_ = "llguidance::json::compiler::Compiler"
    bs = ctx.body(JC_ + "::bounded_sequence")
    # the premise: bounded_sequence subtracts one from max without testing it for zero
    sub1 = [bi for bi, t in bs.calls() if t["f"].get("def", "").endswith("::map") and "Option" in t["f"].get("def", "")]
    sites = []
    for b in P.bodies.values():
        if not P._is_code(b):
            continue
        for bi in b.call_blocks(bs.id):
            sites.append((b, bi))
    if not ctx.floor(R, "calls of bounded_sequence", len(sites), 1):
        return

    def var_of(b, o):
        pl = F.op_place(o)
        l = pl[0] if pl else None
        for _ in range(6):
            ds = b.defs().get(l, []) if l is not None else []
            if l is None or b.locals[l].get("n") or len(ds) != 1 or ds[0][2] != "assign" or ds[0][3]["rv"] != "use":
                break
            nx = F.op_place(ds[0][3]["o"])
            if not nx or len(nx) != 1:
                break
            l = nx[0]
        return l
    for b, bi in sites:
        t = b.blocks[bi]["term"]
        mx = var_of(b, t["args"][3])

        def zero_some(x):
            x = L.strip_views(x)
            v = L.promoted_value(P, b, x) or (L.value_of(b, x) if x[0] in ("ref", "place") else x)
            v = v if v else x
            return v[0] == "agg" and isinstance(v[1], dict) and v[1].get("variant") == "Some" and v[2] and v[2][0][0] == "const" and v[2][0][1] == 0

        def same_var(x):
            x = L.strip_views(x)
            l = L.root_local(b, x)
            if l is None and x[0] == "local":
                l = x[1]
            return l is not None and l == mx
        ne = lambda e: e[0] == "call" and e[1].endswith("::ne") and len(e[2]) == 2 and ((same_var(e[2][0]) and zero_some(e[2][1])) or (same_var(e[2][1]) and zero_some(e[2][0])))
        eq = lambda e: e[0] == "call" and e[1].endswith("::eq") and len(e[2]) == 2 and ((same_var(e[2][0]) and zero_some(e[2][1])) or (same_var(e[2][1]) and zero_some(e[2][0])))
        # pattern form (`matches!(max, Some(0))`, `if let Some(0) = max`): the edge on which `max` is None, and the edge on
        # which its payload is not 0, both establish `max != Some(0)`
        extra = []
        for sb_, e_, targets_, otherwise_ in b.switch_edges():
            # classify the raw switch operand: discriminant of `max`, or the payload of `max`
            o_ = b.blocks[sb_]["term"]["o"]
            pl_ = F.op_place(o_)
            kind_ = None
            if pl_ and len(pl_) == 1:
                ds_ = [d for d in b.defs().get(pl_[0], []) if d[2] == "assign"]
                if len(ds_) == 1:
                    r_ = ds_[0][3]
                    if r_["rv"] == "discr" and r_["p"][0] == mx and len(r_["p"]) == 1:
                        kind_ = "discr"
                    elif r_["rv"] == "use" and F.op_place(r_["o"]) and F.op_place(r_["o"])[0] == mx and any(
                            isinstance(x, dict) and x.get("dc") == "Some" for x in F.op_place(r_["o"])[1:]):
                        kind_ = "payload"
            elif pl_ and pl_[0] == mx and any(isinstance(x, dict) and x.get("dc") == "Some" for x in pl_[1:]):
                kind_ = "payload"
            if kind_ == "discr":
                extra += [(sb_, tb) for v, tb in targets_ if v == 0]
                if not any(v == 0 for v, _ in targets_):
                    extra.append((sb_, otherwise_))
            elif kind_ == "payload":
                # switchInt on the payload: every target but the one for 0
                extra += [(sb_, tb) for v, tb in targets_ if v != 0]
                if any(v == 0 for v, _ in targets_):
                    extra.append((sb_, otherwise_))
        payload_ne0 = lambda e: e[0] == "bin" and e[1] == "Ne" and e[3][0] == "const" and e[3][1] == 0 and e[2][0] == "place" and e[2][1][0] == mx
        payload_eq0 = lambda e: e[0] == "bin" and e[1] == "Eq" and e[3][0] == "const" and e[3][1] == 0 and e[2][0] == "place" and e[2][1][0] == mx
        g = L.guard_edges_multi(b, [(ne, True), (eq, False), (payload_ne0, True), (payload_eq0, False)], extra_edges=extra)
        still = L.dominated_by_cut(b, [bi], g) if g else [bi]
        ctx.check(mx is not None and bool(g) and not still, R, "bounded_sequence:max-nonzero@" + b.id.rsplit("::", 1)[1],
                  "the call is dominated by `max != Some(0)` for the value passed as max",
                  "%s calls bounded_sequence (which always emits one item) without testing the value it passes as `max` against "
                  "Some(0): when the budget is exhausted (e.g. maxProperties == number of required properties) one extra item is admitted"
                  % b.id, site=b.where(bi))

