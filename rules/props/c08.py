"""C08 — numeric bound keywords admit exactly the numbers inside the bounds (structural clauses)."""
import json

from .. import facts as F
from .. import lib as L
from . import c16, c20

JS = "llguidance::json::schema::"
NS_ = JS + "NumberSchema"
NUM = "llguidance::json::numeric::"
JC = "llguidance::json::compiler::Compiler"

META = dict(
    explanation=(
        "Static analysis. Decided clauses: R1 mirror siblings — NumberSchema::get_maximum is the exact mirror of "
        "get_minimum under {minimum<->maximum, exclusive_minimum<->exclusive_maximum, >= <-> <=}, opt_min is the mirror "
        "of opt_max, compared on the canonical MIR of both functions (operators, constants, field names, arm "
        "order); the two halves of normalize_integer_bounds use ceil/+1.0 for the lower and floor/-1.0 for the "
        "upper bound; Schema::intersect combines lower bounds with max (opt_max / usize::max) and upper bounds "
        "with opt_min, field by field; R2 the bounds check dominates regex generation (shared with C03-R4), "
        "json_int normalises with normalize_integer_bounds before rx_int_range and passes its results in order, "
        "json_number passes (minimum, maximum, !exclusive_minimum, !exclusive_maximum) in that order; R3 census of "
        "possibly-overflowing integer arithmetic on schema numbers in json/numeric.rs (shared with C20-R2)."
    ),
    not_decided=(
        "correctness of the digit-recursion regexes (rx_int_range, lexi_*, rx_float_range) and of the multipleOf "
        "arithmetic for all bounds — arithmetic over decimal strings"
    ),
)
META["explanation"] += (
    " Added after the independent seeding rounds 2-3: " 'R1 for get_minimum/get_maximum is a decision table: the two keyword values are only compared, so the returned (value, exclusive?) is decided for each of the three orderings and each presence combination, independent of how the function is written (tie goes to the exclusive bound); opt_min/opt_max likewise. R5 every digit class `[LO-HI][0-9]*` of the range regexes is emitted under a guard equivalent to LO <= HI (template, arguments and guard are variable+constant).'
)

SWAP_FIELDS = {"minimum": "maximum", "maximum": "minimum", "exclusive_minimum": "exclusive_maximum", "exclusive_maximum": "exclusive_minimum"}
SWAP_OPS = {"Ge": "Le", "Le": "Ge", "Gt": "Lt", "Lt": "Gt"}
SWAP_CALLS = {"ge": "le", "le": "ge", "gt": "lt", "lt": "gt"}


def mirror(x):
    """apply the min<->max swap to a canonical signature"""
    if isinstance(x, tuple):
        if len(x) >= 3 and x[1] == "bin" and x[2] in SWAP_OPS:
            x = (x[0], x[1], SWAP_OPS[x[2]]) + x[3:]
        if len(x) >= 2 and x[0] == "call" and isinstance(x[1], str) and x[1] in SWAP_CALLS:
            x = (x[0], SWAP_CALLS[x[1]]) + x[2:]
        return tuple(mirror(y) for y in x)
    if isinstance(x, list):
        return [mirror(y) for y in x]
    if isinstance(x, str) and x in SWAP_FIELDS:
        return SWAP_FIELDS[x]
    return x


def loosen(x):
    if isinstance(x, tuple):
        return tuple(loosen(y) for y in x)
    if isinstance(x, list):
        return [loosen(y) for y in x]
    if isinstance(x, str):
        return {"gt": "ge", "lt": "le", "Gt": "Ge", "Lt": "Le"}.get(x, x)
    return x


def bound_selection_table(ctx):
    """get_minimum / get_maximum touch the two keyword values only through comparisons, so their behaviour on the three
    possible orderings of (inclusive value, exclusive value) is decidable: follow the CFG with both keywords present,
    decide every comparison of the two payloads by the ordering, and read off the returned (value, exclusive?) tuple.
        minimum :  inc < exc -> (exc, true)   inc = exc -> (exc, true)   inc > exc -> (inc, false)   (the larger lower bound)
        maximum :  inc < exc -> (inc, false)  inc = exc -> (exc, true)   inc > exc -> (exc, true)    (the smaller upper bound)
    plus the single-keyword arms.  Independent of how the function is written (match guards, nested ifs, early returns)."""
    P = ctx.prog
    NSCH = "llguidance::json::schema::NumberSchema"
    TRUTH = {"Lt": lambda c: c < 0, "Le": lambda c: c <= 0, "Gt": lambda c: c > 0, "Ge": lambda c: c >= 0, "Eq": lambda c: c == 0, "Ne": lambda c: c != 0}
    for fn, inc_f, exc_f, table in (
            ("get_minimum", "minimum", "exclusive_minimum", {-1: ("exc", True), 0: ("exc", True), 1: ("inc", False)}),
            ("get_maximum", "maximum", "exclusive_maximum", {-1: ("inc", False), 0: ("exc", True), 1: ("exc", True)})):
        gb = ctx.body(NSCH + "::" + fn)

        def side(x):
            t = F.fmt_expr(x)
            if exc_f in t:
                return "exc"
            if inc_f in t:
                return "inc"
            return None
        results = {}
        for bi, si, st in gb.statements():
            r = st.get("r", {})
            if st["s"] == "assign" and st["p"] == [0] and r.get("rv") == "agg" and r.get("kind") == "tuple" and len(r["ops"]) == 2 and "iv" in r["ops"][1]:
                e0 = gb.expr(r["ops"][0])
                payload = None
                if e0[0] == "agg" and isinstance(e0[1], dict) and e0[1].get("variant") == "Some" and e0[2]:
                    payload = side(e0[2][0])
                elif e0[0] == "agg" and isinstance(e0[1], dict) and e0[1].get("variant") == "None":
                    payload = "none"
                else:
                    payload = side(e0)      # the Option itself is returned (`(min, false)`)
                results[bi] = (payload, r["ops"][1]["iv"] == "1")
        sw = {bi: (e, targets, otherwise) for bi, e, targets, otherwise in gb.switch_edges()}

        def walk(order, present):
            """results reachable when inc/exc are present as given and compare as `order` (inc ? exc)"""
            seen, out, dq = set(), set(), [0]
            while dq:
                u = dq.pop()
                if u in seen:
                    continue
                seen.add(u)
                if u in results:
                    out.add(results[u])
                nxt = gb.succs(u)
                if u in sw:
                    e, targets, otherwise = sw[u]
                    cur, pol = F.peel_polarity(e)
                    if cur[0] == "discr":
                        sd = side(cur[1])
                        if sd in present:
                            want = 1 if present[sd] else 0
                            tg = [tb for v, tb in targets if v == want]
                            nxt = tg if tg else [otherwise]
                    elif cur[0] == "bin" and cur[1] in TRUTH and order is not None:
                        sa_, sb_ = side(cur[2]), side(cur[3])
                        if {sa_, sb_} == {"inc", "exc"}:
                            c = order if sa_ == "inc" else -order
                            val = TRUTH[cur[1]](c) == pol
                            tt, ft = F.bool_targets(targets, otherwise)
                            nxt = tt if val else ft
                dq.extend(nxt)
            return out
        for order, name in ((-1, "inc<exc"), (0, "inc=exc"), (1, "inc>exc")):
            got = walk(order, {"inc": True, "exc": True})
            ctx.check(got == {table[order]}, "C08-R1", "%s:both-present:%s" % (fn, name),
                      "returns %s" % (table[order],),
                      "NumberSchema::%s with both keywords present and %s returns %s, expected %s (%s): the wrong one of the two bounds "
                      "applies, or a tie admits the excluded value" % (fn, name, sorted(got, key=str), table[order],
                                                                      "the tighter bound; on a tie the exclusive one"), site=gb.where())
        for present, want, name in (({"inc": True, "exc": False}, ("inc", False), "only-inclusive"),
                                    ({"inc": False, "exc": True}, ("exc", True), "only-exclusive"),
                                    ({"inc": False, "exc": False}, ("none", False), "neither")):
            got = walk(None, present)
            # `(min, false)` returns the Option itself: accepted as the inclusive payload / none
            norm = {("none", f) if (p == "inc" and not present["inc"]) else (p, f) for p, f in got}
            ctx.check(norm == {want}, "C08-R1", "%s:%s" % (fn, name), "returns %s" % (want,),
                      "NumberSchema::%s with %s returns %s, expected %s" % (fn, name, sorted(got, key=str), want), site=gb.where())


def opt_minmax_table(ctx):
    """opt_max / opt_min (used by Schema::intersect to combine bounds of two schemas): decided like get_minimum — the two
    arguments are only compared, so the returned argument is decidable for every ordering and presence combination:
      opt_max: a<b -> b, a>b -> a, a=b -> either;   opt_min: a<b -> a, a>b -> b, a=b -> either;   one absent -> the other."""
    P = ctx.prog
    for fn, table in (("opt_max", {-1: {"y"}, 0: {"x", "y"}, 1: {"x"}}), ("opt_min", {-1: {"x"}, 0: {"x", "y"}, 1: {"y"}})):
        b = ctx.body(JS + fn)

        def side(e, depth=4):
            e = L.strip_views(e)
            if e[0] in ("place", "ref") and e[1]:
                if e[1][0] in (1, 2):
                    return {1: "x", 2: "y"}[e[1][0]]
                if depth > 0:
                    e2 = b.expr_place(e[1])
                    if e2 != e and e2[0] in ("place", "ref", "local"):
                        return side(e2, depth - 1)
                return None
            if e[0] == "local":
                return {1: "x", 2: "y"}.get(e[1])
            return None
        results = {}
        for bi, si, st in b.statements():
            r = st.get("r", {})
            if st["s"] == "assign" and st["p"] == [0]:
                if r.get("rv") == "agg" and isinstance(r.get("kind"), dict) and r["kind"].get("variant") == "Some" and r["ops"]:
                    results[bi] = side(b.expr(r["ops"][0])) or "?"
                elif r.get("rv") == "agg" and isinstance(r.get("kind"), dict) and r["kind"].get("variant") == "None":
                    results[bi] = "none"
                elif r.get("rv") == "use":
                    results[bi] = side(b.expr(r["o"])) or "?"
        for order, name in ((-1, "a<b"), (0, "a=b"), (1, "a>b")):
            got = L.ordering_walk(b, side, results, order, {"x": True, "y": True})
            ctx.check(bool(got) and got <= table[order], "C08-R1", "%s:both-present:%s" % (fn, name), "returns %s" % sorted(got),
                      "%s(a, b) with %s returns %s, expected %s: Schema::intersect would keep the looser of two bounds" % (fn, name, sorted(got), sorted(table[order])),
                      site=b.where())
        for present, want, name in (({"x": True, "y": False}, {"x"}, "only-a"), ({"x": False, "y": True}, {"y"}, "only-b"), ({"x": False, "y": False}, {"none"}, "neither")):
            got = L.ordering_walk(b, side, results, None, present)
            # returning the (absent) argument itself is the same as returning None
            norm = {("none" if (g in ("x", "y") and not present[g]) else g) for g in got}
            ctx.check(norm == want, "C08-R1", "%s:%s" % (fn, name), "returns %s" % sorted(norm),
                      "%s with %s returns %s, expected %s" % (fn, name, sorted(got), sorted(want)), site=b.where())


def digit_class_rule(ctx):
    """The fraction/integer range regexes are assembled from digit classes `[LO-HI][0-9]*`.  A class must be emitted exactly
    when it is non-empty, LO <= HI: a guard that is stricter drops a one-digit class (numbers inside the bounds are
    rejected), a looser one emits an inverted class.  LO and HI are read off the format template and its arguments, the
    dominating comparison off the CFG; all three are `variable + constant`, so the equivalence is a comparison of two
    integers.  Sites whose operands are not of that form are not judged."""
    import ast as _ast
    P = ctx.prog
    n_sites, n_judged = 0, 0

    def lin(b, e, depth=6):
        """(key, const) with value = key + const; key None for a pure constant; None if not linear"""
        e = L.strip_wrappers(e)
        if e[0] == "const" and isinstance(e[1], int):
            return (None, e[1])
        if e[0] == "bin" and e[1] in ("Add", "Sub") and depth > 0:
            a, c = lin(b, e[2], depth - 1), lin(b, e[3], depth - 1)
            if a and c and c[0] is None:
                return (a[0], a[1] + (c[1] if e[1] == "Add" else -c[1]))
            if a and c and a[0] is None and e[1] == "Add":
                return (c[0], a[1] + c[1])
            return None
        if e[0] in ("place", "local", "ref", "deref"):
            if e[0] == "deref":
                return lin(b, e[1], depth - 1)
            return (F.fmt_expr(e) + "#" + repr(e[1]), 0)
        return None
    for i, b in sorted(P.bodies.items()):
        if not i.startswith(NUM) or not P._is_code(b):
            continue
        for bi, si, st in b.statements():
            r = st.get("r", {})
            if not (st["s"] == "assign" and r.get("rv") == "use" and str(r["o"].get("ty", "")).startswith("&[u8;") and "[" in str(r["o"].get("k", ""))):
                continue
            try:
                raw = _ast.literal_eval(r["o"]["k"])
            except Exception:
                continue
            pieces, k = [], 0
            while k < len(raw) and raw[k] != 0:
                if raw[k] == 0xC0:
                    pieces.append(None)
                    k += 1
                elif raw[k] < 0x80:
                    pieces.append(raw[k + 1:k + 1 + raw[k]].decode("latin1"))
                    k += 1 + raw[k]
                else:
                    pieces = []
                    break
            txt = "".join("\x00" if p_ is None else p_ for p_ in pieces)
            import re as _re
            m = _re.match(r"^\[(\x00|[0-9])-(\x00|[0-9])\]", txt)
            if not m:
                continue
            n_sites += 1
            args = []
            for st2 in b.blocks[bi]["st"]:
                if st2["s"] == "assign" and st2["r"].get("rv") == "agg" and st2["r"].get("kind") == "array":
                    for o in st2["r"]["ops"]:
                        e = b.expr(o)
                        inner = e[2][0] if e[0] == "call" and e[2] else e
                        v = L.value_of(b, inner) if inner[0] in ("place", "ref") else inner
                        args.append(v if v else inner)
            ai = 0
            ends = []
            for g_ in (m.group(1), m.group(2)):
                if g_ == "\x00":
                    ends.append(lin(b, args[ai]) if ai < len(args) else None)
                    ai += 1
                else:
                    ends.append((None, int(g_)))
            lo, hi = ends
            if lo is None or hi is None or (lo[0] is not None and hi[0] is not None and lo[0] == hi[0]):
                continue
            need = hi[1] - lo[1]           # LO <= HI  <=>  (klo - khi) <= need
            # dominating comparisons between the same two keys
            best = None
            for sb_, e_, targets_, otherwise_ in b.switch_edges():
                cur, pol = F.peel_polarity(e_)
                if cur[0] != "bin" or cur[1] not in ("Lt", "Le", "Gt", "Ge"):
                    continue
                A, B = lin(b, cur[2]), lin(b, cur[3])
                if not A or not B:
                    continue
                tt, ft = F.bool_targets(targets_, otherwise_)
                for truth, heads in ((True, tt), (False, ft)):
                    if not heads or L.dominated_by_cut(b, [bi], [(sb_, h) for h in heads]):
                        continue
                    op = cur[1] if truth == pol else {"Lt": "Ge", "Le": "Gt", "Gt": "Le", "Ge": "Lt"}[cur[1]]
                    # normalise to (klo - khi) <= t
                    if (A[0], B[0]) == (lo[0], hi[0]) and op in ("Lt", "Le"):
                        t = B[1] - A[1] - (1 if op == "Lt" else 0)
                    elif (A[0], B[0]) == (hi[0], lo[0]) and op in ("Gt", "Ge"):
                        t = A[1] - B[1] - (1 if op == "Gt" else 0)
                    else:
                        continue
                    best = t if best is None else min(best, t)
            if best is None:
                continue
            n_judged += 1
            fnm = i.rsplit("::", 1)[1]
            ctx.check(best == need, "C08-R5", "digit-class-guard:%s#%d" % (fnm, n_judged),
                      "class %s is emitted exactly when it is non-empty" % m.group(0).replace("\x00", "{}"),
                      "%s emits the digit class %s under a guard that is %s than `LO <= HI` (guard: LO-HI <= %d, needed: <= %d): %s"
                      % (i, m.group(0).replace("\x00", "{}"), "stricter" if best < need else "looser", best, need,
                         "a class with exactly one digit is dropped and numbers inside the bounds are rejected" if best < need
                         else "an inverted class can be emitted"), site=b.where(bi))
    ctx.floor("C08-R5", "digit-class templates in json/numeric.rs", n_sites, 5)
    ctx.floor("C08-R5", "digit-class sites with a decidable guard", n_judged, 3)


def run(ctx):
    P = ctx.prog
    # ------------------------------------------------------------------ R1 mirrors
    bound_selection_table(ctx)
    digit_class_rule(ctx)
    opt_minmax_table(ctx)
    for a, b, what in ():
        ba, bb = ctx.body(a), ctx.body(b)
        sa, sb = c16.signature(P, ba), c16.signature(P, bb)
        if what.startswith("opt_"):
            # for a pure min/max the tie case returns equal values either way: strict and non-strict comparisons are
            # the same function, so they are not distinguished
            sa, sb = loosen(sa), loosen(sb)
        ok = mirror(sa) == sb
        where = None
        if not ok:
            ms = mirror(sa)
            for i, (x, y) in enumerate(zip(ms, sb)):
                if x != y:
                    where = "first difference in block #%d of the canonical order" % i
                    break
        ctx.check(ok, "C08-R1", "mirror:" + what.replace(" ", ""), "%s are exact mirrors under the min<->max swap" % what,
                  "%s are no longer mirror images (%s): a one-sided edit, e.g. `<=` -> `<`, makes an exclusive bound inclusive or "
                  "prefers the wrong one of minimum / exclusiveMinimum" % (what, where), site=bb.where())
        # and the swap is not vacuous: the un-swapped signatures differ
        ctx.check(sa != sb, "C08-R1", "mirror-nonvacuous:" + what.replace(" ", ""), "the two siblings differ before the swap",
                  "%s are identical without the swap: the mirror check is vacuous" % what, site=bb.where())
    nib = ctx.body(NUM + "normalize_integer_bounds")
    gmin = nib.call_blocks(NS_ + "::get_minimum")
    gmax = nib.call_blocks(NS_ + "::get_maximum")
    if ctx.floor("C08-R1", "get_minimum/get_maximum calls in normalize_integer_bounds", len(gmin) + len(gmax), 2):
        lower = nib.reachable(gmin[0], cut_blocks=gmax)
        upper = nib.reachable(gmax[0])
        def count(blocks):
            c = {"ceil": 0, "floor": 0, "Add1": 0, "Sub1": 0}
            for bi in blocks:
                blk = nib.blocks[bi]
                t = blk["term"]
                if t["t"] == "call":
                    d = t["f"].get("def", "")
                    if d.endswith("f64>::ceil") or d.endswith("::ceil"):
                        c["ceil"] += 1
                    if d.endswith("f64>::floor") or d.endswith("::floor"):
                        c["floor"] += 1
                for st in blk["st"]:
                    if st["s"] == "assign" and st["r"]["rv"] == "bin" and st["r"]["op"] in ("Add", "Sub"):
                        k = st["r"]["b"].get("k", "")
                        if str(k).startswith("1") and "f64" in st["r"]["b"].get("ty", ""):
                            c["Add1" if st["r"]["op"] == "Add" else "Sub1"] += 1
            return c
        lo, up = count(lower - upper), count(upper)
        ctx.check(lo == {"ceil": 2, "floor": 0, "Add1": 1, "Sub1": 0}, "C08-R1", "normalize_integer_bounds:lower-half",
                  "lower bound: ceil (x2) and +1.0 for an integral exclusive bound", "lower-bound half of normalize_integer_bounds uses %s" % lo, site=nib.where())
        ctx.check(up == {"ceil": 0, "floor": 2, "Add1": 0, "Sub1": 1}, "C08-R1", "normalize_integer_bounds:upper-half",
                  "upper bound: floor (x2) and -1.0 for an integral exclusive bound", "upper-bound half of normalize_integer_bounds uses %s" % up, site=nib.where())
    # intersect wiring
    isect = ctx.body(JS + "Schema::intersect")
    want = {
        (NS_, "minimum"): ("opt_max", "minimum"), (NS_, "maximum"): ("opt_min", "maximum"),
        (NS_, "exclusive_minimum"): ("opt_max", "exclusive_minimum"), (NS_, "exclusive_maximum"): ("opt_min", "exclusive_maximum"),
        (JS + "StringSchema", "min_length"): ("max", "min_length"), (JS + "StringSchema", "max_length"): ("opt_min", "max_length"),
        (JS + "ArraySchema", "min_items"): ("max", "min_items"), (JS + "ArraySchema", "max_items"): ("opt_min", "max_items"),
        (JS + "ObjectSchema", "min_properties"): ("max", "min_properties"), (JS + "ObjectSchema", "max_properties"): ("opt_min", "max_properties"),
    }
    seen = set()
    for adt in (NS_, JS + "StringSchema", JS + "ArraySchema", JS + "ObjectSchema"):
        for b, bi, fm, _ in L.struct_inits(P, adt):
            if b.id != isect.id:
                continue
            for (a2, fld), (fn, src) in want.items():
                if a2 != adt or fld not in fm:
                    continue
                e = isect.expr(fm[fld])
                ok = e[0] == "call" and e[1].rsplit("::", 1)[-1] == fn and len(e[2]) == 2 and all(
                    x[0] in ("place", "ref") and F.place_fields(x[1])[-1:] == [(adt, src)] for x in e[2])
                seen.add((adt, fld))
                if not ok and not (e[0] == "call" and e[1].rsplit("::", 1)[-1] in ("opt_min", "opt_max", "min", "max", "min_by", "max_by")):
                    # the combination is written out (a match / if-else over the two operands): not one of the known combinators,
                    # so it is neither confirmed nor refuted here (the Option-min lint below still applies)
                    ctx.info("C08-R1", "intersect:%s.%s is combined by an inline expression (not judged)" % (adt.rsplit("::", 1)[1], fld))
                    continue
                ctx.check(ok, "C08-R1", "intersect:%s.%s" % (adt.rsplit("::", 1)[1], fld), "%s = %s(a.%s, b.%s)" % (fld, fn, src, src),
                          "Schema::intersect combines %s.%s with `%s`: the intersection of two schemas is no longer the tighter bound"
                          % (adt.rsplit("::", 1)[1], fld, F.fmt_expr(e)), site=isect.where(bi))
    ctx.floor("C08-R1", "bound fields wired in Schema::intersect", len(seen), 10)

    # an absent bound is `None` = unbounded: `Ord::min` on Options orders None *below* Some, so `a.min(b)` DROPS an upper bound that
    # only one side has (opt_min is the right combinator); no JSON-schema code may take Ord::min / Iterator::min of Option bounds
    n_optmin = 0
    for i, b in sorted(P.bodies.items()):
        if not P._is_code(b) or not i.startswith(("llguidance::json::", "<llguidance::json::")):
            continue
        for bi, t in b.calls():
            full = t["f"].get("full") or ""
            d = t["f"].get("def", "")
            if d.rsplit("::", 1)[-1] == "min" and "core::option::Option<" in full.split(" as ")[0] and "cmp::Ord" in full:
                n_optmin += 1
                ctx.violation("C08-R1", "option-min-drops-bound:%s" % i.replace("llguidance::json::", ""),
                              "%s combines two optional bounds with Ord::min on Option (None < Some): a bound present on one side only is dropped" % i, site=b.where(bi))
    if n_optmin == 0:
        ctx.ok("C08-R1", "option-min-census", "no Ord::min over Option-typed bounds in the JSON-schema code")

    # ------------------------------------------------------------------ R2 order of normalisation / arguments
    cnb = NUM + "check_number_bounds"
    ji = ctx.body(JC + "::json_int")
    norm = ji.call_blocks(NUM + "normalize_integer_bounds")
    gen = ji.call_blocks(NUM + "rx_int_range")
    chk = ji.call_blocks(cnb)
    ok = bool(norm) and bool(gen) and bool(chk) and all(g not in ji.reachable(0, cut_blocks=norm) for g in gen) and all(g not in ji.reachable(0, cut_blocks=chk) for g in gen)
    ctx.check(ok, "C08-R2", "json_int:check-then-normalise-then-generate", "check_number_bounds and normalize_integer_bounds dominate rx_int_range",
              "json_int generates the integer regex without the bounds check / normalisation", site=ji.where())
    if gen and norm:
        t = ji.blocks[gen[0]]["term"]
        nl = ji.blocks[norm[0]]["term"]["dest"][0]
        a0, a1 = ji.expr(t["args"][0]), ji.expr(t["args"][1])
        def tup_field(e, l, i):
            return e[0] == "place" and e[1][0] == l and len(e[1]) == 2 and e[1][1].get("f") == i
        ok = (tup_field(a0, nl, 0) or (a0[0] == "call" and False)) and tup_field(a1, nl, 1)
        if not ok:
            # through the destructured locals: provenance by role, whatever they are called
            r0, r1 = L.role(ji, t["args"][0]), L.role(ji, t["args"][1])
            ok = r0.startswith("call:normalize_integer_bounds(") and r0.endswith(").0") and r1.startswith("call:normalize_integer_bounds(") and r1.endswith(").1")
        ctx.check(ok, "C08-R2", "json_int:arguments-in-order", "rx_int_range(minimum, maximum) receives the normalised pair in order",
                  "json_int passes (%s, %s) to rx_int_range" % (F.fmt_expr(a0), F.fmt_expr(a1)), site=ji.where(gen[0]))
    jn = ctx.body(JC + "::json_number")
    gen = jn.call_blocks(NUM + "rx_float_range")
    if ctx.floor("C08-R2", "rx_float_range call in json_number", len(gen), 1):
        t = jn.blocks[gen[0]]["term"]

        def src(e):
            """(getter, tuple index, negated) of an argument"""
            cur, pol = F.peel_polarity(e)
            if cur[0] == "place" and len(cur[1]) == 2 and isinstance(cur[1][1], dict) and "f" in cur[1][1]:
                base = jn.expr_place([cur[1][0]])
                if base[0] == "call":
                    return (base[1].rsplit("::", 1)[-1], cur[1][1]["f"], not pol)
            if cur[0] in ("place", "local"):
                l = cur[1] if cur[0] == "local" else cur[1][0]
                ds = jn.defs().get(l, [])
                if len(ds) == 1 and ds[0][2] == "assign" and ds[0][3]["rv"] == "use":
                    inner = src(jn.expr(ds[0][3]["o"]))
                    if inner:
                        return (inner[0], inner[1], inner[2] != (not pol))
            return None

        got = [src(jn.expr(a)) for a in t["args"][:4]]
        want = [("get_minimum", 0, False), ("get_maximum", 0, False), ("get_minimum", 1, True), ("get_maximum", 1, True)]
        ctx.check(got == want, "C08-R2", "json_number:arguments",
                  "rx_float_range(get_minimum().0, get_maximum().0, !get_minimum().1, !get_maximum().1)",
                  "json_number passes %s to rx_float_range (expected %s): bounds or inclusiveness are swapped" % (got, want), site=jn.where(gen[0]))

    # ------------------------------------------------------------------ R6 multipleOf is never dropped
    # The range regex alone admits every literal inside the bounds; multipleOf is enforced only by intersecting it with
    # signed_multiple_of_ast.  So on every path of json_number / json_int on which `multiple_of` is Some, the returned
    # AST passes through that call.  (For integers a divisor of exactly 1 is vacuous: a bypass under `coef == 1` is
    # accepted there, and only there.)
    for fn_b, allow_unit in ((jn, False), (ji, True)):
        nm = fn_b.id.rsplit("::", 1)[1]
        some_edges = []
        for sb, e, targets, otherwise in fn_b.switch_edges():
            if e[0] == "discr" and "multiple_of" in repr(e[1]):
                tg = [(sb, t) for v, t in targets if int(v) == 1]
                if not tg and all(int(v) == 0 for v, _ in targets):
                    tg = [(sb, otherwise)]
                some_edges += tg
        calls = fn_b.call_blocks(JC.rsplit("::", 1)[0] + "::signed_multiple_of_ast")
        rets = [bi for bi in fn_b.live_blocks() if fn_b.blocks[bi]["term"]["t"] == "return"]
        if not some_edges and not calls and any(cb_.call_blocks(JC.rsplit("::", 1)[0] + "::signed_multiple_of_ast") for cb_ in
                                                 (P.bodies.get(c_) or getattr(P, "hidden", {}).get(c_) for c_ in P.closures_of(fn_b.id, include_hidden=True)) if cb_ is not None):
            ctx.info("C08-R6", "%s: multipleOf handled inside a closure (Option::map form) — not judged" % nm)
            continue
        if not some_edges or not calls:
            ctx.violation("C08-R6", "multipleOf:%s:anchor" % nm, "%s no longer tests `multiple_of` / calls signed_multiple_of_ast: multipleOf is not enforced" % fn_b.id, site=fn_b.where())
            continue
        cut = []
        if allow_unit:
            cut = L.guard_edges(fn_b, lambda e: e[0] == "bin" and e[1] == "Eq" and "coef" in repr(e) and any(x[0] == "const" and x[1] == 1 for x in e[2:4]), True)
        bypass = []
        for (sb, t) in some_edges:
            if sb not in fn_b.reachable(0, cut_blocks=calls):
                continue   # the tested Option is itself produced after the call (`multiple_of.map(|d| signed_multiple_of_ast(..))`)
            r = fn_b.reachable(t, cut_blocks=calls, cut_edges=cut)
            bypass += [x for x in rets if x in r]
        ctx.check(not bypass, "C08-R6", "multipleOf:%s:never-dropped" % nm,
                  "every path on which multiple_of is Some intersects the range regex with signed_multiple_of_ast",
                  "%s can return the plain range regex although `multipleOf` is set (a path from the Some arm reaches the return without "
                  "signed_multiple_of_ast%s): literals that are not multiples are admitted" % (fn_b.id, "" if allow_unit else "; for `number` even a divisor of 1 excludes fractions"),
                  site=fn_b.where(some_edges[0][0]))

    # ------------------------------------------------------------------ R3 overflow census
    c20.overflow_census(ctx, "C08-R3")
