"""C04 — a regular-expression constraint admits exactly the regex's language (structural clauses only)."""
from .. import facts as F
from .. import lib as L

RV = "llguidance::earley::regexvec::RegexVec"
RB = "llguidance::grammar_builder::RegexBuilder"
LC = "llguidance::lark::compiler::Compiler"

META = dict(
    explanation=(
        "Static analysis over MIR. The language of a regex is computed at run time by derivre's derivatives and is NOT "
        "decided. Decided are the places in this repository where the regex's meaning is handed over or summarised, each a "
        "necessary condition of the property: R1 a lexeme can be reported as matched only when its derivative is nullable "
        "— in compute_state_desc `greedy_accepting.add` and in lowest_match_inner every `lazies.add` / `eois.add` is "
        "dominated by the is_nullable() outcome, and every lexeme of the state enters `possible`; R2 the next state holds, "
        "for lexeme idx, the derivative of that lexeme's own expression by the transition's own byte (operand provenance of "
        "DerivCache::derivative and push_rx in transition_inner), and the cached transition is stored in the slot that "
        "`transition` looked up; R3 Lark terminal combinators map to the regex constructors they name: alternatives -> "
        "select(and(concat(exprs))) nesting in do_token_expansions, `~x` -> not, `[x]` -> optional; RegexBuilder::concat / "
        "select / and / not build RegexAst::Concat / Or / And / Not, a one-element list is the element, the empty "
        "concatenation is EMPTY_STRING and the empty alternation NO_MATCH; R4 (adopted from C09-R1) `* + ? {m,n}` on "
        "terminals map to repeat(0,None) / (1,None) / (0,Some(1)) / (m, None if n == i32::MAX else n); R5 (adopted from "
        "C03-R1) a derivative stays in a state only after a positive non-emptiness check, so a token is allowed only if some "
        "completion exists; R6 (adopted from C01-R5/C10-R4) the slicer shortcut adds whole token sets only when the slice "
        "regex is contained in the *current derivative* of a lexeme; R7 (adopted from C19-R4) the UTF-8 / byte mode of the "
        "regex builder follows the grammar's allow_invalid_utf8 option."
    ),
    not_decided=(
        "the language denoted by a regex (derivre: derivatives, nullability, emptiness, containment), the suffix automaton "
        "of %regex substring, regex_rewrite's string rewriting, the greedy/lazy end-of-lexeme policy beyond R1"
    ),
)


def run(ctx):
    P = ctx.prog
    # ------------------------------------------------------------------ R1 accepting only if nullable
    nullable = lambda e: e[0] == "call" and e[1].endswith("ExprSet::is_nullable")
    csd = ctx.body(RV + "::compute_state_desc")
    adds = [bi for bi, t in csd.calls() if t["f"].get("def", "").endswith("MatchingLexemes::add")]
    g = L.guard_edges(csd, nullable, True)
    still = L.dominated_by_cut(csd, adds, g) if g else adds
    ctx.check(bool(adds) and bool(g) and not still, "C04-R1", "compute_state_desc:accepting-only-if-nullable",
              "greedy_accepting.add(idx) is dominated by exprs.is_nullable(e)",
              "compute_state_desc marks a lexeme as accepting without its derivative being nullable: a string that does not match is accepted as complete",
              site=csd.where(still[0]) if still else csd.where())
    poss = [bi for bi, t in csd.calls() if t["f"].get("def", "").endswith("LexemeSet::add")]
    # `possible.add` is unconditional inside the loop: it is not dominated by either outcome of is_nullable
    g_any = L.guard_edges_multi(csd, [(nullable, True), (nullable, False)])
    cond = [bi for bi in poss if g_any and bi not in csd.reachable(0, cut_edges=L.guard_edges(csd, nullable, True)) or
            (g_any and bi not in csd.reachable(0, cut_edges=L.guard_edges(csd, nullable, False)))]
    ctx.check(bool(poss) and not cond, "C04-R1", "compute_state_desc:possible-is-every-lexeme",
              "every lexeme of the state is added to `possible`, whatever is_nullable answers",
              "compute_state_desc adds a lexeme to `possible` only under a nullability outcome: live lexemes are dropped from the state description",
              site=csd.where(cond[0]) if cond else csd.where())
    lm = ctx.body(RV + "::lowest_match_inner")
    adds = [bi for bi, t in lm.calls() if t["f"].get("def", "").endswith("MatchingLexemes::add")]
    # reachable from the `!is_nullable` outcome without going round the loop = not dominated by the nullable outcome
    g_true = L.guard_edges(lm, nullable, True)
    still = L.dominated_by_cut(lm, adds, g_true) if g_true else adds
    ctx.check(len(adds) >= 2 and bool(g_true) and not still, "C04-R1", "lowest_match_inner:match-only-if-nullable",
              "lazies.add / eois.add are dominated by the nullable outcome of exprs.is_nullable(e)",
              "lowest_match_inner records a lexeme as a (lazy / end-of-input) match although its derivative is not nullable",
              site=lm.where(still[0]) if still else lm.where())
    ctx.floor("C04-R1", "match recorders in lowest_match_inner", len(adds), 2)

    # ------------------------------------------------------------------ R2 derivative operands and the transition cache slot
    ti = ctx.body(RV + "::transition_inner")
    ders = [(bi, t) for bi, t in ti.calls() if t["f"].get("def", "").endswith("DerivCache::derivative")]
    push = [(bi, t) for bi, t in ti.calls() if t["f"].get("def", "") == RV + "::push_rx"]
    if ctx.floor("C04-R2", "derivative / push_rx sites in transition_inner", min(len(ders), len(push)), 1):
        bi, t = ders[0]
        e_expr = ti.expr(t["args"][2])
        e_byte = ti.expr(t["args"][3])
        # the byte is parameter 3 (`b`)
        ctx.check(e_byte[0] == "place" and e_byte[1] == [3], "C04-R2", "transition_inner:derivative-by-the-transition-byte",
                  "the derivative is taken with respect to the transition's byte parameter",
                  "transition_inner derives by %s, not by the byte of the transition" % F.fmt_expr(e_byte), site=ti.where(bi))
        # (idx, e) come from the same `next()` item of iter_state(rx_sets, state)
        pb, pt = push[0]
        p_idx = ti.expr(pt["args"][1])

        def item_root(e):
            """(local of the iterator item, tuple field) for a value read out of `Some((idx, e))`"""
            if e[0] == "place" and isinstance(e[1][0], int):
                fields = [x["f"] for x in e[1][1:] if isinstance(x, dict) and "f" in x and "n" not in x]
                return (e[1][0], tuple(fields))
            return None
        r_e, r_i = item_root(e_expr), item_root(p_idx)
        ok = r_e is not None and r_i is not None and r_e[0] == r_i[0] and r_e[1] != r_i[1]
        src_ok = False
        if ok:
            ds = [d for d in ti.defs().get(r_e[0], []) if d[2] == "call"]
            src_ok = bool(ds) and ds[0][3]["f"].get("def", "").endswith("::next")
        ctx.check(ok and src_ok, "C04-R2", "transition_inner:derivative-of-own-lexeme",
                  "the expression derived and the lexeme index pushed are the two halves of one (idx, e) item of the state",
                  "transition_inner pairs a lexeme index with the derivative of a different expression (%s / %s)" % (F.fmt_expr(p_idx), F.fmt_expr(e_expr)),
                  site=ti.where(pb))
        # what is pushed is (a checked copy of) that derivative
        p_d = ti.expr(pt["args"][2])
        l = p_d[1][0] if p_d[0] in ("local", "place") and isinstance(p_d[1], (list, tuple)) else (p_d[1] if p_d[0] == "local" else None)
        srcs = set()
        seen = set()

        def collect(loc, depth=0):
            if loc in seen or depth > 6:
                return
            seen.add(loc)
            for (b_, s_, kind, payload) in ti.defs().get(loc, []):
                if kind == "call":
                    srcs.add(payload["f"].get("def", "").rsplit("::", 1)[-1])
                elif kind == "assign" and payload["rv"] == "use":
                    q = F.op_place(payload["o"])
                    if q is not None and len(q) == 1:
                        collect(q[0], depth + 1)
                    elif "k" in payload["o"]:
                        srcs.add("const:" + str(payload["o"].get("k", ""))[-8:])
        if isinstance(l, int):
            collect(l)
        elif p_d[0] == "call":
            srcs.add(p_d[1].rsplit("::", 1)[-1])
        ctx.check("derivative" in srcs and all(s == "derivative" or "NO_MATCH" in s for s in srcs), "C04-R2", "transition_inner:pushes-the-derivative",
                  "the expression stored for the lexeme is its derivative (or NO_MATCH, which is then skipped)",
                  "transition_inner stores %s for a lexeme instead of its derivative" % sorted(srcs), site=ti.where(pb))
    tr = ctx.body(RV + "::transition")
    ms = [bi for bi, t in tr.calls() if t["f"].get("def", "").endswith("AlphabetInfo::map_state")]
    tin = tr.call_blocks(RV + "::transition_inner")
    ok = False
    if ms and tin:
        t = tr.blocks[tin[0]]["term"]
        e = tr.expr(t["args"][3])
        ok = e[0] == "call" and e[1].endswith("AlphabetInfo::map_state") and tr.expr(t["args"][1]) == ("place", [2]) and tr.expr(t["args"][2]) == ("place", [3])
        mt = tr.blocks[ms[0]]["term"]
        ok = ok and tr.expr(mt["args"][1]) == ("place", [2]) and tr.expr(mt["args"][2]) == ("place", [3])
    ctx.check(ok, "C04-R2", "transition:cache-slot", "the slot looked up is alpha.map_state(state, b) and the same slot index goes to transition_inner(state, b, idx)",
              "RegexVec::transition looks up / fills a transition-table slot that is not map_state(state, b)", site=tr.where())
    st_w = [(bi, st) for bi, si, st in ti.statements() if st["s"] == "assign" and F.place_fields(st["p"])[-1:] == [(RV, "state_table")]]
    idx_ok = False
    for bi, t in ti.calls():
        if t["f"].get("def", "").endswith("IndexMut<I>>::index_mut") and t["args"]:
            e0 = ti.expr(t["args"][0])
            if e0[0] in ("ref", "place") and F.place_fields(e0[1])[-1:] == [(RV, "state_table")]:
                idx_ok = ti.expr(t["args"][1]) == ("place", [4])
    ctx.check(idx_ok, "C04-R2", "transition_inner:fills-the-looked-up-slot", "state_table[idx] is written with the slot index received from transition()",
              "transition_inner caches the new state under an index other than its `idx` parameter", site=ti.where())

    # ------------------------------------------------------------------ R3 Lark terminal combinators -> regex constructors
    variants = {"concat": "Concat", "select": "Or", "and": "And", "not": "Not"}
    for fn, var in variants.items():
        b = ctx.try_body(RB + "::" + fn, "C04-R3")
        if b is None:
            continue
        aggs = []
        for bi, si, st in b.statements():
            if st["s"] == "assign" and st["r"].get("rv") == "agg" and isinstance(st["r"].get("kind"), dict) and st["r"]["kind"].get("adt", "").endswith("RegexAst"):
                aggs.append(st["r"]["kind"]["variant"])
        aggs = [a for a in aggs if a != "ExprRef"]
        ctx.check(aggs == [var], "C04-R3", "builder:%s->%s" % (fn, var), "RegexBuilder::%s builds RegexAst::%s" % (fn, var),
                  "RegexBuilder::%s builds %s (expected RegexAst::%s): the terminal operator denotes another language" % (fn, aggs, var), site=b.where())
        if fn in ("concat", "select"):
            want = "EMPTY_STRING" if fn == "concat" else "NO_MATCH"
            consts = set()
            for bi, si, st in b.statements():
                if st["s"] == "assign" and st["p"] == [0] and st["r"]["rv"] == "use" and "k" in st["r"]["o"]:
                    k = str(st["r"]["o"]["k"])
                    for nm in ("EMPTY_STRING", "NO_MATCH", "ANY_BYTE_STRING", "ANY_STRING"):
                        if nm in k:
                            consts.add(nm)
            ctx.check(consts == {want}, "C04-R3", "builder:%s:empty-list" % fn, "the empty %s is %s" % ("concatenation" if fn == "concat" else "alternation", want),
                      "RegexBuilder::%s returns %s for an empty list (expected %s)" % (fn, sorted(consts), want), site=b.where())
    dte = ctx.body(LC + "::do_token_expansions")
    # nesting: concat results are collected into `and`, and results into `select`
    cl = P.closures_of(dte.id)
    allb = [dte] + [P.bodies[c] for c in cl if c in P.bodies]
    where = {}
    for b in allb:
        for bi, t in b.calls():
            d = t["f"].get("def", "")
            if d in (RB + "::concat", RB + "::and", RB + "::select", LC + "::do_token_expr"):
                where.setdefault(d.rsplit("::", 1)[-1], []).append(b.id)

    def depth_of(i):
        return i.count("{closure")
    ok = all(k in where for k in ("concat", "and", "select", "do_token_expr"))
    if ok:
        ok = depth_of(where["select"][0]) < depth_of(where["and"][0]) < depth_of(where["concat"][0]) <= depth_of(where["do_token_expr"][0])
    depths = {k: sorted({depth_of(x) for x in v}) for k, v in where.items()}
    if all(k in where for k in ("concat", "and", "select")) and len({tuple(v) for v in depths.values()}) == 1:
        # written without nested closures (plain loops): the nesting is not visible as closure depth — not judged
        ctx.info("C04-R3", "do_token_expansions: combinators are called from one body (loop form); nesting not judged")
        ok = True
    ctx.check(ok, "C04-R3", "do_token_expansions:select(and(concat))", "alternatives are select()-ed, conjuncts and()-ed inside an alternative, expressions concat()-enated inside a conjunct",
              "do_token_expansions no longer nests select(and(concat(expr))) : %s" % {k: [depth_of(x) for x in v] for k, v in where.items()}, site=dte.where())
    dta = ctx.body(LC + "::do_token_atom")
    table = None
    for sb, e, targets, otherwise in dta.switch_edges():
        if e[0] != "discr":
            continue
        for st in dta.blocks[sb]["st"]:
            if st["s"] == "assign" and st["r"].get("rv") == "discr" and st["r"].get("adt", "").endswith("lark::ast::Atom") and st["r"].get("vn"):
                names = {int(v): n for v, n in st["r"]["vn"]}
                table = {names[int(v)]: t for v, t in targets if int(v) in names}
                for v, n in names.items():
                    table.setdefault(n, otherwise)
        if table:
            break
    if not table:
        ctx.violation("C04-R3", "do_token_atom:variant-table", "do_token_atom no longer dispatches on the Atom variant", site=dta.where())
    else:
        want = {"Not": RB + "::not", "Maybe": RB + "::optional"}
        helpers = {RB + "::not", RB + "::optional"}
        for var, helper in want.items():
            others = {t for n, t in table.items() if n != var}
            arm = dta.reachable(table[var], cut_blocks=list(others - {table[var]}))
            called = {t["f"].get("def") for bi, t in dta.calls() if bi in arm and t["f"].get("def") in helpers}
            # the arm's own helper is the first one reached; joins after the match are shared, so require presence of the wanted one and absence of the other before the join
            first = None
            seen, todo = set(), [table[var]]
            while todo and first is None:
                x = todo.pop(0)
                if x in seen:
                    continue
                seen.add(x)
                t = dta.blocks[x]["term"]
                if t["t"] == "call" and t["f"].get("def") in helpers:
                    first = t["f"]["def"]
                    break
                todo += [y for y in dta.succs(x) if y not in others]
            ctx.check(first == helper, "C04-R3", "do_token_atom:%s" % var, "Atom::%s is compiled with %s" % (var, helper.rsplit("::", 1)[1]),
                      "Atom::%s is compiled with %s (expected %s)" % (var, first, helper), site=dta.where(table[var]))

    # ------------------------------------------------------------------ adopted clauses
    ctx.import_clauses("c09", "C09-R1", ["terminal", "RegexBuilder", "zero_or_more", "one_or_more", "optional", "repeat"], "C04-R4")
    ctx.import_clauses("c03", "C03-R1", ["transition_inner:", "initial_state:", "new_with_exprset:"], "C04-R5")
    ctx.import_clauses("c01", "C01-R5", ["check_subsume", "subsume_possible"], "C04-R6")
    ctx.import_clauses("c19", "C19-R4", ["wiring:"], "C04-R7")
