"""C11 — internal caching never changes a mask (structural clauses)."""
from .. import facts as F
from .. import lib as L

PS = "llguidance::earley::parser::ParserState"
SCR = "llguidance::earley::parser::Scratch"
REC = "<llguidance::earley::parser::ParserRecognizer<'_> as toktrie::toktree::Recognizer>::"
TP = "llguidance::tokenparser::TokenParser"
PARSER = "llguidance::earley::parser::Parser"
NS = "llguidance::earley::parser::"

META = dict(
    explanation=(
        "Static analysis over MIR. Decided clauses (each a necessary condition of C11): "
        "R1 speculative brackets (trie_started/trie_finished, run_speculative) are paired on every "
        "normal path of every function that opens one; R2 every ParserState/Scratch field written "
        "by code reachable between the brackets (mode-split on scratch.definitive) is restored by "
        "trie_finished_inner or is in the frozen working-register/memo/diagnostic table; R3 every "
        "function that shrinks the definitive lexer stack clears the mask cache on all paths "
        "(rollback) or is a frozen, reasoned exception; row re-use is guarded by the three "
        "conjuncts and rows_valid_end has exactly four writers; R4 TokenParser per-token caches "
        "are cleared on every committing path; R5 the mask-cache hit compares every key field and "
        "hit/store are guarded by an empty start."
    ),
    not_decided=(
        "that the cache key is sufficient in histories without rollback (monotonicity of row "
        "indices); equality of masks as values"
    ),
)

# fields that code between the brackets may write without being restored, with the reason
SPEC_OK = {
    (PS, "rows"): "memo: rows beyond the live prefix are recomputed or re-used only under rows_valid_end (R3)",
    (PS, "scratch"): "container of Scratch; its fields are classified individually",
    (PS, "stats"): "diagnostic counters (all_items is the fuel compared with max_all_items, reset per call by with_items_limit)",
    (PS, "backtrack_byte_count"): "working register: taken (reset to 0) by try_push_byte_definitive; asserted 0 in assert_definitive",
    (PS, "shared_box"): "lexer tables: memo of derivatives, append-only (C14-R3)",
    (PS, "parser_error"): "sticky failure latch",
    (PS, "max_all_items"): "self-resetting limit register of with_items_limit",
    (PS, "metrics"): "diagnostic",
    (PS, "trace_byte_stack"): "ITEM_TRACE diagnostics",
    (SCR, "items"): "memo arena: rows reference ranges; entries beyond row_end are dead",
    (SCR, "item_args"): "memo arena parallel to items",
    (SCR, "row_start"): "working register re-initialised by new_row",
    (SCR, "row_end"): "working register re-initialised by new_row",
    (SCR, "push_grm_top"): "working register set by maybe_pop_grammar_stack before each row",
    (SCR, "push_lexeme_idx"): "working register set by scan",
    (SCR, "push_allowed_lexemes"): "working register cleared by process_agenda",
    (SCR, "push_allowed_grammar_ids"): "working register set by process_agenda",
    (SCR, "parametric"): "config",
}
# element types: writes through an element of a restored/memo container
ELEMENT_OK = {
    NS + "LexerState": "element of lexer_stack (truncated to the saved length at trie_finished)",
    NS + "Row": "element of rows (memo, see rows)",
    NS + "GrammarStackNode": "element of scratch.grammar_stack (truncated at trie_finished)",
    NS + "ParserStats": "diagnostic counters",
    NS + "ParserMetrics": "diagnostic",
    NS + "SharedState": "lexer tables (C14)",
    NS + "Item": "element of scratch.items",
    NS + "ItemProps": "element of scratch.item_args",
}
DEFINITIVE_ONLY = [
    (PS, "row_infos"), (PS, "captures"), (PS, "bytes"), (PS, "byte_to_token_idx"), (PS, "token_idx"),
    (PS, "bias_cache"), (PS, "last_force_bytes_len"), (PS, "lexer_stack_top_eos"),
]


def closures_passed(b, t):
    out = []
    for a in t["args"]:
        e = b.expr(a)
        if e[0] == "closure":
            out.append(e[1])
        elif e[0] == "agg" and isinstance(e[1], dict) and "closure" in e[1]:
            out.append(e[1]["closure"])
    return out


def watermark_values(ctx, rule):
    """rows_valid_end is the validity watermark of speculatively built rows: every writer must set it
    to the current row count (num_rows(), or num_rows()+1 for the row just written). A value that
    depends on the old watermark (max/min with itself) keeps rows valid that were built from an
    overwritten predecessor."""
    P = ctx.prog
    n = 0
    for b, bi, r in L.assignments_to(P, PS, "rows_valid_end"):
        e = b.expr_rvalue(r)
        n += 1

        def is_num_rows(x):
            return x[0] == "call" and x[1] == PS + "::num_rows"

        ok = is_num_rows(e) or (e[0] == "bin" and e[1] in ("Add", "AddWithOverflow") and is_num_rows(e[2]) and e[3][0] == "const" and e[3][1] == 1)
        # overflow-checked add: value is field 0 of the (result, overflow) pair
        if not ok and e[0] == "place":
            base = b.expr_place([e[1][0]])
            ok = base[0] == "bin" and base[1] in ("Add", "AddWithOverflow") and is_num_rows(base[2]) and base[3][0] == "const" and base[3][1] == 1
        if b.id == PS + "::new":
            ok = ok or (e[0] == "const")
        ctx.check(ok, rule, "rows_valid_end:value@" + b.id.rsplit("::", 1)[1],
                  "rows_valid_end := num_rows() (+1 for the row just written)",
                  "%s sets rows_valid_end to `%s`: the row re-use watermark must be reset to the current row count, otherwise rows "
                  "built from an overwritten predecessor stay 'valid' and are re-used by the next trie branch" % (b.id, F.fmt_expr(e)),
                  site=b.where(bi))
    ctx.floor(rule, "assignments to rows_valid_end", n, 4)


def run(ctx):
    P = ctx.prog
    started = {PS + "::trie_started_inner", "toktrie::toktree::Recognizer::trie_started"}
    finished = {PS + "::trie_finished_inner", "toktrie::toktree::Recognizer::trie_finished"}

    # ---------------------------------------------------------------- R1 pairing
    n_open = 0
    for f in sorted(P.bodies):
        b = P.bodies[f]
        if not P._is_code(b):
            continue
        opens = b.call_blocks(lambda d: d in started)
        if not opens:
            continue
        if b.rec.get("impl_of") in started:
            ctx.ok("C11-R1", f, "trait adapter forwarding trie_started")
            continue
        n_open += 1
        closes = b.call_blocks(lambda d: d in finished)
        bad = L.must_pass(b, opens, closes)
        ctx.check(not bad, "C11-R1", f,
                  "every path from the %d bracket open(s) to a normal return passes a bracket close" % len(opens),
                  "a path from the speculative bracket open at %s reaches the return without the matching close"
                  % (b.where(bad[0]) if bad else ""), site=b.where(opens[0]))
    ctx.floor("C11-R1", "functions opening a speculative bracket", n_open, 3)

    # ---------------------------------------------------------------- R2 speculative writes undone
    split = L.mode_split(P, SCR, "definitive")
    exclude = {k: t for k, (t, f) in split.items() if t}
    ctx.floor("C11-R2", "functions branching on scratch.definitive", len(split), 7)
    roots = set()
    rs = ctx.body(PS + "::run_speculative")
    for caller in P.callers_of(rs.id):
        cb = P.bodies[caller]
        for bi, t in cb.calls():
            if t["f"].get("def") == rs.id:
                roots.update(closures_passed(cb, t))
    n_cl = len(roots)
    ctx.floor("C11-R2", "closures passed to run_speculative", n_cl, 5)
    for m in P.impls().get("toktrie::toktree::Recognizer::try_push_byte", []):
        pass
    for b in P.bodies.values():
        io = b.rec.get("impl_of", "")
        if io.startswith("toktrie::toktree::Recognizer::") and b.id.startswith(REC):
            if io.rsplit("::", 1)[1] not in ("trie_started", "trie_finished"):
                roots.add(b.id)
    stop = {PS + "::trie_started_inner", PS + "::trie_finished_inner", PS + "::run_speculative"}
    eff = P.transitive_effects(sorted(roots), stop=stop, exclude=exclude)
    W = L.fields_written(eff, (NS,))
    fin = ctx.body(PS + "::trie_finished_inner")
    fin_eff = P.transitive_effects([fin.id], stop={PS + "::assert_definitive"})
    restore = L.fields_written(fin_eff, (NS,))
    restored_fields = set()
    for (a, f), (how, src) in restore.items():
        restored_fields.add((a, f))
    need_restore = [(PS, "lexer_stack"), (SCR, "grammar_stack"), (SCR, "definitive"), (PS, "rows_valid_end"),
                    (SCR, "log_override"), (PS, "lexer_stack_flush_position")]
    for k in need_restore:
        ctx.check(k in restored_fields, "C11-R2", "restore:%s.%s" % (k[0].rsplit("::", 1)[1], k[1]),
                  "trie_finished_inner restores %s" % k[1],
                  "trie_finished_inner no longer writes %s.%s (bracket state not restored)" % k, site=fin.where())
    for (a, f), (how, src) in sorted(W.items()):
        name = "%s.%s" % (a.rsplit("::", 1)[1], f)
        if (a, f) in DEFINITIVE_ONLY:
            ctx.violation("C11-R2", "definitive-only:" + name,
                          "definitive-only field %s is written (%s) by %s on a path reachable in speculative mode"
                          % (name, how, src), site=P.bodies[src].where() if src in P.bodies else None)
            continue
        if (a, f) in restored_fields and (a, f) in need_restore:
            ctx.ok("C11-R2", name, "written speculatively by %s; restored by trie_finished_inner" % src)
        elif (a, f) in SPEC_OK:
            ctx.ok("C11-R2", name, "written by %s; %s" % (src, SPEC_OK[(a, f)]))
        elif a in ELEMENT_OK:
            ctx.ok("C11-R2", name, "written by %s; %s" % (src, ELEMENT_OK[a]))
        else:
            ctx.violation("C11-R2", "unrestored:" + name,
                          "field %s is written (%s) by %s between the speculative brackets and is neither restored "
                          "by trie_finished_inner nor classified as working register/memo/diagnostic" % (name, how, src),
                          site=P.bodies[src].where() if src in P.bodies else None)
    ctx.info("C11-R2", "speculative roots: %d closures + %d recogniser methods; %d functions reachable; %d fields written"
             % (n_cl, len(roots) - n_cl, len(eff["reach"]), len(W)))

    # ---------------------------------------------------------------- R3 key-invalidating operations
    # every function with a shrinking &mut call on ParserState.lexer_stack
    shr = {}
    for b in P.bodies.values():
        if not P._is_code(b):
            continue
        for bi, (w, m, r) in P.block_effects(b).items():
            for (fld, callee) in m:
                if fld == (PS, "lexer_stack") and L.is_shrinker(callee):
                    shr.setdefault(b.id, []).append((bi, callee))
    SHRINK_TABLE = {
        PS + "::pop_lexer_states": ("bracket", "only called by trie_finished_inner, the recogniser's pop_bytes (speculative walk) and handle_hidden_bytes (stop= lexemes)"),
        PS + "::restore_state": ("bracket", "only called inside validate_tokens' speculative closure"),
        PS + "::rollback": ("must-clear", "rewrites history: the (lexer_state,row_idx,pending) key may denote a different state"),
        PS + "::apply_token": ("allow", "removes the flush entry below the top: same row, same top state; key unchanged"),
        PS + "::advance_parser": ("allow", "pops the entry it pushed itself for the single-byte lexeme (net effect: push)"),
        PS + "::handle_hidden_bytes": ("allow", "stop= lexemes only (outside rollback-capable grammars; C12-R2 check_rollback)"),
    }
    ctx.floor("C11-R3", "functions shrinking lexer_stack", len(shr), 4)
    for f, sites in sorted(shr.items()):
        b = P.bodies[f]
        ent = SHRINK_TABLE.get(f)
        if ent is None:
            ctx.violation("C11-R3", "shrinker:" + f,
                          "%s shrinks ParserState.lexer_stack (%s) and is not a known bracket-internal or cache-clearing "
                          "function: a stale mask-cache key can survive" % (f, sites[0][1]), site=b.where(sites[0][0]))
            continue
        kind, why = ent
        if kind == "must-clear":
            clear_blocks = [bi for bi, (w, m, r) in P.block_effects(b).items() if (PS, "bias_cache") in w]
            # path-wise: no path entry -> truncation -> return avoids the clear (clearing just before the truncation is as good
            # as just after it: nothing in between can re-fill the cache — compute_bias is its only filler, C11-R3 writers)
            pre_reach = b.reachable(0, cut_blocks=clear_blocks)
            late = [s[0] for s in sites if s[0] in pre_reach]
            bad = L.must_pass(b, late, clear_blocks) if late else []
            ctx.check(not bad and bool(clear_blocks), "C11-R3", f + ":bias_cache",
                      "every path through the history truncation to the return clears bias_cache",
                      "%s truncates the lexer stack but a path to the return does not reset bias_cache "
                      "(stale cached mask after rollback)" % f, site=b.where(sites[0][0]))
            rve = [bi for bi, (w, m, r) in P.block_effects(b).items() if (PS, "rows_valid_end") in w]
            bad = L.must_pass(b, [s[0] for s in sites], rve)
            ctx.check(not bad and bool(rve), "C11-R3", f + ":rows_valid_end",
                      "every path from the truncation to the return resets rows_valid_end",
                      "%s does not reset rows_valid_end on every path" % f, site=b.where(sites[0][0]))
        elif kind == "bracket":
            callers = set(P.callers_of(f))
            allowed = {PS + "::trie_finished_inner", REC + "pop_bytes", PS + "::handle_hidden_bytes"} if f.endswith("pop_lexer_states") else {PS + "::validate_tokens::{closure#0}"}
            extra = callers - allowed
            ctx.check(not extra, "C11-R3", f + ":callers", "callers are bracket internals only (%s)" % why,
                      "%s (a history shrinker) is now also called from %s" % (f, sorted(extra)), site=b.where())
        else:
            ctx.ok("C11-R3", f, "allowlisted shrinker: " + why)
    # writers of rows_valid_end
    writers = set()
    for b in P.bodies.values():
        if P._is_code(b):
            w, m, r = P.own_effects(b)
            if (PS, "rows_valid_end") in w:
                writers.add(b.id)
    exp = {PS + "::trie_started_inner", PS + "::trie_finished_inner", PS + "::just_push_row", PS + "::rollback"}
    ctx.check(writers == exp, "C11-R3", "rows_valid_end:writers", "rows_valid_end has exactly the 4 expected writers",
              "writers of rows_valid_end changed: unexpected %s missing %s" % (sorted(writers - exp), sorted(exp - writers)))
    watermark_values(ctx, "C11-R3")
    # bias_cache writers
    bw = set()
    for b in P.bodies.values():
        if P._is_code(b):
            w, m, r = P.own_effects(b)
            if (PS, "bias_cache") in w or any(x[0] == (PS, "bias_cache") for x in m):
                bw.add(b.id)
    expw = {PS + "::compute_bias", PS + "::rollback", PARSER + "::invalidate_bias_cache"}
    ctx.check(bw == expw, "C11-R3", "bias_cache:writers", "bias_cache written only by compute_bias (store), rollback and invalidate_bias_cache (clear)",
              "writers of bias_cache changed: unexpected %s missing %s" % (sorted(bw - expw), sorted(expw - bw)))
    # row re-use shortcut: the block bumping stats.cached_rows must be dominated by 3 conjuncts
    ap = ctx.body(PS + "::advance_parser")
    reuse = [bi for bi, (w, m, r) in P.block_effects(ap).items() if (NS + "ParserStats", "cached_rows") in w]
    if ctx.floor("C11-R3", "row re-use arm (cached_rows bump) in advance_parser", len(reuse), 1):
        conj = {
            "!scratch.definitive": L.guard_edges(ap, L.is_field_read(SCR, "definitive"), False),
            "num_rows() < rows_valid_end": L.guard_edges(
                ap, lambda e: e[0] == "bin" and e[1] == "Lt" and e[2][0] == "call" and e[2][1] == PS + "::num_rows"
                and L.is_field_read(PS, "rows_valid_end")(e[3]), True),
            "rows[num_rows()].lexeme_idx == lexeme_idx": L.guard_edges(
                ap, lambda e: e[0] == "call" and e[1].endswith("::eq") and "MatchingLexemesIdx" in e[1], True),
        }
        for name, edges in conj.items():
            # dominated by the conjunct: removing its success edges disconnects the arm
            still = L.dominated_by_cut(ap, reuse, edges) if edges else reuse
            ctx.check(bool(edges) and not still, "C11-R3", "row-reuse:" + name,
                      "the row re-use arm is dominated by `%s`" % name,
                      "the speculative row re-use shortcut in advance_parser is no longer guarded by `%s`" % name,
                      site=ap.where(reuse[0]))
        # and the arm must skip scan only there: scan is called on every other path to lexer_state_for_added_row
        scan_blocks = ap.call_blocks(PS + "::scan")
        after = ap.call_blocks(PS + "::lexer_state_for_added_row")
        reach = ap.reachable(0, cut_blocks=set(scan_blocks) | set(reuse))
        ctx.check(not [a for a in after if a in reach], "C11-R3", "row-reuse:scan-or-reuse",
                  "a new row is accepted only after scan() or the guarded re-use arm",
                  "advance_parser reaches lexer_state_for_added_row without scan() and without the guarded re-use arm",
                  site=ap.where(after[0]) if after else None)

    # ---------------------------------------------------------------- R5 cache key completeness
    cb = ctx.body(PS + "::compute_bias")
    adt = P.adts.get(NS + "BiasCache")
    if adt is None:
        raise_missing = ctx.violation("C11-R5", "anchor-missing:BiasCache", "struct BiasCache not found")
    else:
        # key = every leaf field of BiasCache other than the mask; a key wrapped in a nested struct of this module
        # (e.g. `key: BiasCacheKey`) is flattened, and a *derived* `==` on the nested struct compares all of its fields
        BC = NS + "BiasCache"
        leaves = []   # (adt, field, group) — group = (outer adt, outer field) of the nested struct or None

        def flatten(adt_id, group, depth=0):
            a = P.adts.get(adt_id)
            for f in a["variants"][0]["fields"]:
                if f["ty"] == "toktrie::svob::SimpleVob":
                    continue
                sub = P.adts.get(f["ty"])
                if sub is not None and sub.get("crate") == a.get("crate") and sub.get("kind") == "struct" and depth < 2:
                    flatten(f["ty"], (adt_id, f["name"]), depth + 1)
                else:
                    leaves.append((adt_id, f["name"], group))
        flatten(BC, None)
        key_fields = [l[1] for l in leaves]
        ctx.floor("C11-R5", "BiasCache key fields", len(key_fields), 3)
        # hit return: block cloning cache.mask
        hit = []
        for bi, t in cb.calls():
            if t["f"].get("def", "").endswith("SimpleVob as core::clone::Clone>::clone"):
                e = cb.expr(t["args"][0])
                if e[0] in ("ref", "place") and F.place_fields(e[1]) and F.place_fields(e[1])[-1] == (BC, "mask"):
                    hit.append(bi)

        def derived_eq(d):
            hb = P.bodies.get(d)
            return hb is not None and bool(hb.rec.get("derived")) and d.endswith("::eq")
        if ctx.floor("C11-R5", "cache-hit return (clone of cache.mask)", len(hit), 1):
            for (ad, kf, group) in leaves:
                def cmp_pred(e, ad=ad, kf=kf, group=group):
                    xs = ()
                    if e[0] == "bin" and e[1] == "Eq":
                        xs = (e[2], e[3])
                    elif e[0] == "call" and e[1].endswith("::eq"):
                        xs = tuple(e[2])
                        if group is not None and derived_eq(e[1]) and any(L.is_field_read(*group)(L.strip_views(x)) for x in xs):
                            return True
                    return any(L.is_field_read(ad, kf)(L.strip_wrappers(x)) and (F.place_fields(x[1])[0][0] != ad or group is None or True) for x in xs
                               if x[0] in ("place", "ref"))
                edges = L.guard_edges(cb, cmp_pred, True)
                still = L.dominated_by_cut(cb, hit, edges) if edges else hit
                ctx.check(bool(edges) and not still, "C11-R5", "hit-compares:" + kf,
                          "cache hit is dominated by `cache.%s == current`" % kf,
                          "the mask-cache hit path does not compare key field `%s`: a cached mask of a different state can be returned" % kf,
                          site=cb.where(hit[0]))
        # start.is_empty() dominates hit and store
        store = [bi for bi, (w, m, r) in P.block_effects(cb).items() if (PS, "bias_cache") in w]
        empty_edges = L.guard_edges(cb, lambda e: e[0] == "call" and e[1].endswith("::is_empty") and "[T]" in e[1] or (e[0] == "call" and e[1] == "core::slice::<impl [T]>::is_empty"), True)
        for nm, sites in (("hit", hit), ("store", store)):
            still = L.dominated_by_cut(cb, sites, empty_edges) if empty_edges else sites
            ctx.check(bool(sites) and bool(empty_edges) and not still, "C11-R5", "start-empty:" + nm,
                      "cache %s is dominated by start.is_empty()" % nm,
                      "the mask cache %s is reachable with a non-empty start prefix (mask depends on start, key does not)" % nm,
                      site=cb.where(sites[0]) if sites else None)
        # store fills every key field from the same sources as the hit comparison
        inits = [x for x in L.struct_inits(P, BC) if x[0].id == cb.id]
        if ctx.floor("C11-R5", "BiasCache store site", len(inits), 1):
            exp_src = {"lexer_state": "lexer_state", "row_idx": "row_idx", "has_pending_lexeme_bytes": "has_pending_lexeme_bytes"}
            for (ad, kf, group) in leaves:
                lits = inits if ad == BC else [x for x in L.struct_inits(P, ad) if x[0].id == cb.id]
                want = exp_src.get(kf)
                if not lits:
                    ctx.violation("C11-R5", "store-source:" + kf, "no literal of %s builds the stored key in compute_bias" % ad, site=cb.where())
                    continue
                for (b_, bi_, fm, _) in lits:
                    src = F.fmt_expr(cb.expr(fm[kf]))
                    ctx.check(want is None or want in src, "C11-R5", "store-source:" + kf,
                              "store fills %s from %s" % (kf, src),
                              "the cache store fills key field %s from `%s` (expected a value derived from %s)" % (kf, src, want),
                              site=cb.where(bi_))

    # ---------------------------------------------------------------- R6 row registers are set for every row
    # `Scratch::work_row` stamps the new row with `scratch.push_lexeme_idx` — the key of the speculative row re-use test in
    # advance_parser.  The register is a working register: it must be assigned on every path that leads to a row push, or
    # the row carries the lexeme of whatever row was pushed before (by a mask walk, a validation, a commit: history).
    # Decided per caller of just_push_row: the call is preceded, on all paths from the function's entry, by an assignment to
    # the register in that function (or the function is itself only a wrapper whose every caller satisfies this).
    reg = (SCR, "push_lexeme_idx")
    readers = [i for i, b in P.bodies.items() if P._is_code(b) and reg in P.own_effects(b)[2] and i.startswith(NS)]
    JPR = PS + "::just_push_row"

    def sets_before(b, sites):
        w = [bi for bi, (wr, m, r) in P.block_effects(b).items() if reg in wr]
        if not w:
            return False
        return not [x for x in sites if x in b.reachable(0, cut_blocks=w)]

    checked, bad = [], []
    todo, seen = [JPR], set()
    while todo:
        callee = todo.pop()
        if callee in seen:
            continue
        seen.add(callee)
        for c in sorted(P.callers_of(callee)):
            cb_ = P.bodies.get(c)
            if cb_ is None or not P._is_code(cb_):
                continue
            sites = cb_.call_blocks(callee)
            if not sites:
                continue
            if c == PS + "::new":
                continue   # row 0 of a fresh engine: the register still has the initial value given by Scratch::new (no history yet)
            if sets_before(cb_, sites):
                checked.append(c)
            elif c.startswith(PS + "::") and c != JPR and len(seen) < 6 and c.rsplit("::", 1)[1] in ("push_row",):
                todo.append(c)   # a pure wrapper: its callers must set the register
            else:
                bad.append(c)
    ctx.check(bool(readers) and bool(checked) and not bad, "C11-R6", "row-register:push_lexeme_idx-set-before-every-row",
              "every path to just_push_row assigns scratch.push_lexeme_idx first (%s)" % ", ".join(x.rsplit("::", 1)[1] for x in checked),
              "%s reach(es) just_push_row without assigning scratch.push_lexeme_idx: the new row is stamped with the lexeme of a row pushed "
              "earlier (by a previous mask walk, validation or commit), and the row re-use test of advance_parser compares that stale stamp — "
              "the mask depends on the engine's history" % ", ".join(bad), site=P.bodies[bad[0]].where() if bad else None)

    # ---------------------------------------------------------------- R4 per-token caches
    # Parser::force_bytes is not in this set: TokenParser::is_accepting is `!has_ff_bytes() &&
    # parser.is_accepting()`, forced bytes exist only in non-accepting states, and the ff cache is
    # filled by ff_tokens() which forces first.
    committing = {PARSER + "::apply_token", PARSER + "::rollback", PARSER + "::scan_eos"}
    clear = TP + "::clear_caches"
    R4_EXC = {
        (TP + "::consume_token", PARSER + "::scan_eos"):
            "scan_eos() only succeeds for EOS-terminated gen() lexemes (has_stop grammars, outside the rollback-capable core); "
            "the caches hold values computed with the same lexeme flushed",
    }
    n = 0
    for f in sorted(P.bodies):
        b = P.bodies[f]
        if not f.startswith(TP + "::") or not P._is_code(b):
            continue
        sites = [(bi, t["f"]["def"]) for bi, t in b.calls() if t["f"].get("def") in committing]
        if not sites:
            continue
        clears = b.call_blocks(clear)
        for bi, callee in sites:
            n += 1
            inst = "%s@%s" % (f, callee.rsplit("::", 1)[1])
            if (f, callee) in R4_EXC:
                ctx.ok("C11-R4", inst, "exception: " + R4_EXC[(f, callee)])
                continue
            pre = bi not in b.reachable(0, cut_blocks=clears)  # clear dominates the commit
            # a failed commit (`?` error edge) is assumed to leave the parser unchanged
            post = not L.must_pass(b, [bi], clears, cut_edges=L.failure_edges_of_call(b, bi))
            ctx.check(pre or post, "C11-R4", inst,
                      "clear_caches() %s the committing call" % ("dominates" if pre else "post-dominates"),
                      "%s calls %s at %s, and clear_caches() neither dominates the call nor lies on every path from it "
                      "to the return: is_accepting/ff_tokens caches can go stale" % (f, callee, b.where(bi)),
                      site=b.where(bi))
    ctx.floor("C11-R4", "TokenParser methods calling committing Parser methods", n, 3)
    for fld in ("is_accepting_cache", "ff_tokens_cache"):
        ws = set()
        for b in P.bodies.values():
            if P._is_code(b):
                w, m, r = P.own_effects(b)
                if (TP, fld) in w or any(x[0] == (TP, fld) for x in m):
                    ws.add(b.id)
        ctx.info("C11-R4", "%s writers: %s" % (fld, sorted(ws)))
        exp = {"is_accepting_cache": {TP + "::clear_caches", TP + "::is_accepting", TP + "::compute_mask_inner", TP + "::from_init::{closure#0}", TP + "::init_inner"},
               "ff_tokens_cache": {TP + "::clear_caches", TP + "::compute_ff_tokens", TP + "::compute_mask_inner", TP + "::ff_tokens", TP + "::init_inner"}}[fld]
        extra = ws - exp
        ctx.check(not extra, "C11-R4", fld + ":writers", "%s written only by %s" % (fld, sorted(ws)),
                  "%s has a new writer %s" % (fld, sorted(extra)))
