"""C02 — acceptance depends on the bytes, not on how they are split into tokens (clauses)."""
from .. import facts as F
from .. import lib as L

NS = "llguidance::earley::parser::"
PS = NS + "ParserState"
SCR = NS + "Scratch"
REC = "<llguidance::earley::parser::ParserRecognizer<'_> as toktrie::toktree::Recognizer>::"
TP = "llguidance::tokenparser::TokenParser"
TRIE = "toktrie::toktree::TokTrie::"

META = dict(
    explanation=(
        "Static analysis over MIR (transitive read-sets, def-use). Decided clauses: R1 nothing "
        "reachable from the byte transition (speculative try_push_byte / pop_bytes / flush_lexer and "
        "the definitive try_push_byte_definitive, excluding the definitive-only bookkeeping regions "
        "established by C01-R2) reads token-boundary state (token index, byte->token map, token "
        "history) or calls a token-level trie function; the only readers are the max_tokens horizon "
        "functions (feature outside the property); the token id given to apply_token is used only "
        "for the identity check and the token-range (special token) branch; R2 the trie walks feed "
        "the recogniser exactly the node's byte; R3 the speculative row re-use watermark (rows_valid_end) "
        "is reset to the current row count by every writer, so rows built on one trie branch are never "
        "re-used on a sibling branch (multi-byte tokens are walked with re-use, single bytes are not)."
    ),
    not_decided="equality of outcomes for two tokenisations of the same bytes (depends on C01/C16 semantics)",
)
META["explanation"] += (
    " Added after the independent seeding rounds 2-3: " 'R4 slicer-shortcut soundness (shared with C01-R5 / C10-R1,R4).'
)

TOKEN_BOUNDARY = [(PS, "token_idx"), (PS, "byte_to_token_idx"), (TP, "llm_tokens"), (TP, "llm_bytes")]
READ_EXC = {
    (PS + "::maybe_pop_grammar_stack", "token_idx"): "max_tokens horizon of a sub-grammar (feature excluded by the property)",
    (PS + "::mk_grammar_stack_node", "token_idx"): "max_tokens horizon of a sub-grammar (feature excluded by the property)",
}


def readers(P, reach, field, exclude):
    out = []
    for f in sorted(reach):
        b = P.bodies.get(f)
        if b is None or not P._is_code(b):
            continue
        w, m, r = P.own_effects(b, (exclude or {}).get(f, ()))
        if field in r:
            out.append(f)
    return out


def run(ctx):
    P = ctx.prog
    split = L.mode_split(P, SCR, "definitive")
    exclude = {k: t for k, (t, f) in split.items() if t}
    ctx.floor("C02-R1", "functions branching on scratch.definitive", len(split), 7)
    for name, roots in (
        ("speculative", [REC + "try_push_byte", REC + "pop_bytes", PS + "::flush_lexer", PS + "::is_accepting_inner"]),
        ("definitive", [PS + "::try_push_byte_definitive"]),
    ):
        for r in roots:
            ctx.body(r)
        reach = P.reachable_from(roots, exclude=exclude)
        ctx.floor("C02-R1", "functions reachable from the %s byte transition" % name, len(reach), 150)
        for fld in TOKEN_BOUNDARY:
            rs = readers(P, reach, fld, exclude)
            bad = [f for f in rs if (f, fld[1]) not in READ_EXC]
            ctx.check(not bad, "C02-R1", "%s:no-read:%s" % (name, fld[1]),
                      "no function on the %s byte transition reads %s%s" % (name, fld[1], (" (exceptions: %s)" % [x.rsplit("::", 1)[1] for x in rs]) if rs else ""),
                      "%s (reachable from the %s byte transition) reads token-boundary state %s.%s: acceptance of a byte can "
                      "depend on how earlier bytes were split into tokens" % (bad[:2], name, fld[0].rsplit("::", 1)[1], fld[1]),
                      site=P.bodies[bad[0]].where() if bad else None,
                      path=P.call_path(roots[0], bad[0]) if bad else None)
        tl = sorted(x for x in reach if x.startswith(TRIE) and x[len(TRIE):] in (
            "token", "token_len", "decode", "decode_raw", "decode_str", "decode_as_special", "token_id", "token_id_at_bytes",
            "tokenize_with_greedy_fallback", "greedy_tokenize", "token_dbg", "tokens_dbg"))
        ctx.check(not tl, "C02-R1", "%s:no-token-level-trie-calls" % name,
                  "no token-level TokTrie function is reachable from the %s byte transition" % name,
                  "token-level trie functions %s are reachable from the %s byte transition" % (tl, name),
                  path=P.call_path(roots[0], tl[0]) if tl else None)
    # type fact: the definitive transition takes Option<u8>, no token id
    d = ctx.body(PS + "::try_push_byte_definitive")
    ctx.check(d.argc == 2 and d.local_ty(2) == "core::option::Option<u8>", "C02-R1", "definitive:signature",
              "try_push_byte_definitive(&mut self, Option<u8>) — no token id can reach the transition",
              "try_push_byte_definitive now takes %s" % [d.local_ty(i) for i in range(1, d.argc + 1)], site=d.where())
    s = ctx.body(REC + "try_push_byte")
    ctx.check(s.argc == 2 and s.local_ty(2) == "u8", "C02-R1", "speculative:signature", "try_push_byte(&mut self, u8)",
              "speculative try_push_byte now takes %s" % [s.local_ty(i) for i in range(1, s.argc + 1)], site=s.where())
    # uses of tok_id in ParserState::apply_token
    at = ctx.body(PS + "::apply_token")
    # the token id parameter: the only u32 parameter (by type, not by name)
    cands = [i for i in range(1, at.argc + 1) if at.local_ty(i) == "u32"]
    tok_local = cands[0] if len(cands) == 1 else None
    if tok_local is None:
        ctx.violation("C02-R1", "anchor-missing:apply_token.tok_id", "parameter tok_id of ParserState::apply_token not found")
    else:
        allowed = {TRIE + "token": "identity check token(tok_id) == tok_bytes",
                   PS + "::flush_and_check_numeric": "token-range (special token) branch",
                   PS + "::run_speculative": "closure capturing &tok_id for the speculative token-range probe"}
        uses = []
        for bi, t in at.calls():
            for a in t["args"]:
                e = at.expr(a)
                def mentions(e, depth=0):
                    if depth > 6:
                        return False
                    if e[0] in ("place", "ref") and e[1][0] == tok_local:
                        return True
                    if e[0] == "local" and e[1] == tok_local:
                        return True
                    if e[0] in ("un", "cast"):
                        return mentions(e[1] if e[0] == "cast" else e[2], depth + 1)
                    if e[0] == "agg":
                        return any(mentions(x, depth + 1) for x in e[2])
                    return False
                if mentions(e):
                    uses.append((t["f"].get("def", "?"), bi))
        ctx.floor("C02-R1", "uses of tok_id in apply_token", len(uses), 2)
        for callee, bi in uses:
            ctx.check(callee in allowed, "C02-R1", "apply_token:tok_id->" + callee.rsplit("::", 1)[1],
                      allowed.get(callee, ""),
                      "ParserState::apply_token passes the token id to %s: the commit path depends on the token identity, not "
                      "only on its bytes" % callee, site=at.where(bi))
        # tok_id must not be branched on directly
        for bi, e, targets, otherwise in at.switch_edges():
            txt = repr(e)
            if ("[%d]" % tok_local) in txt and "call" not in txt:
                ctx.violation("C02-R1", "apply_token:branch-on-tok_id", "apply_token branches on the raw token id", site=at.where(bi))
        # the numeric branch is taken only when the speculative probe found a token-range lexeme
        anum = at.call_blocks(PS + "::add_numeric_token")
        g = L.guard_edges(at, lambda e: e[0] == "call" and e[1].endswith("Option::<T>::is_some"), True)
        still = L.dominated_by_cut(at, anum, g) if g else anum
        ctx.check(bool(anum) and bool(g) and not still, "C02-R1", "apply_token:numeric-branch-guarded",
                  "add_numeric_token is dominated by the token-range probe being Some",
                  "apply_token reaches add_numeric_token without the token-range probe", site=at.where(anum[0]) if anum else None)
    fcn = ctx.body(PS + "::flush_and_check_numeric")
    g = L.guard_edges(fcn, L.is_call_to(PS + "::flush_lexer"), True)
    inner = fcn.call_blocks(PS + "::token_range_lexemes")
    still = L.dominated_by_cut(fcn, inner, g) if g else inner
    ctx.check(bool(inner) and bool(g) and not still, "C02-R1", "numeric-probe:iterates-token-range-lexemes",
              "the token-id probe only consults token_range_lexemes() after a successful flush",
              "flush_and_check_numeric no longer restricts itself to token-range lexemes", site=fcn.where())

    # ------------------------------------------------------------------ R3 speculative row re-use cannot mix branches
    # (a multi-byte token is walked with row re-use, single bytes are not: the watermark discipline is
    # what makes the two agree; shared with C11-R3 / C01-R2)
    from . import c11 as _c11
    _c11.watermark_values(ctx, "C02-R3")
    # R4: the slicer shortcut admits multi-byte tokens without feeding their bytes one at a time; its two soundness
    # conditions (shared with C10-R1/R4, C01-R5)
    from . import c10 as _c10
    _c10.subsume_guard(ctx, "C02-R4")
    _c10.subsume_operands(ctx, "C02-R4")
    # R5: two ids with the same bytes must both be present in the trie (mask walks the trie, commit reads the byte table) — shared with C16-R6
    from . import c16 as _c16
    _c16.builder_first_match(ctx, "C02-R5")

    # ------------------------------------------------------------------ R2 walks push node bytes
    n = 0
    for fn in (TRIE + "add_bias_inner", TRIE + "has_valid_extensions"):
        b = ctx.body(fn)
        for bi, t in b.calls():
            if t["f"].get("def") == "toktrie::toktree::Recognizer::try_push_byte":
                n += 1
                e = b.expr(t["args"][1])
                ok = e[0] == "call" and e[1] == "toktrie::toktree::TrieNode::byte"
                ctx.check(ok, "C02-R2", fn.rsplit("::", 1)[1] + ":byte-from-node",
                          "try_push_byte receives TrieNode::byte() of the node being visited",
                          "%s pushes %s into the recogniser instead of the visited node's byte" % (fn, F.fmt_expr(e)), site=b.where(bi))
    ctx.floor("C02-R2", "try_push_byte sites in trie walks", n, 2)
    # TrieNode::byte is a pure accessor of bits1
    tb = ctx.body("toktrie::toktree::TrieNode::byte")
    w, m, r = P.own_effects(tb)
    ctx.check(not w and not m and ("toktrie::toktree::TrieNode", "bits") in r or not w, "C02-R2", "TrieNode::byte:pure",
              "TrieNode::byte writes nothing", "TrieNode::byte has side effects", site=tb.where())
    # apply_token at token level decodes the id to bytes once and hands only bytes + id to the parser
    ta = ctx.body(TP + "::apply_token")
    pc = ta.call_blocks("llguidance::earley::parser::Parser::apply_token")
    if ctx.floor("C02-R2", "Parser::apply_token call in TokenParser::apply_token", len(pc), 1):
        e = ta.expr(ta.blocks[pc[0]]["term"]["args"][1])
        ctx.info("C02-R2", "bytes argument: " + F.fmt_expr(e))
        dr = ta.call_blocks(TRIE + "decode_raw")
        ctx.check(len(dr) == 1 and pc[0] not in ta.reachable(0, cut_blocks=dr), "C02-R2", "token-bytes-from-decode_raw",
                  "the bytes committed are produced by the single decode_raw(&[tok_id]) that dominates the commit",
                  "TokenParser::apply_token no longer derives the committed bytes from one decode_raw call", site=ta.where(pc[0]))
    # ---- R6 (adopted from C10-R3): the residual tries of the slicer are built from "this slice minus one child" /
    # "minus all children" masks — a token left out of them is neither OR-ed in nor walked, while its bytes stay acceptable
    ctx.import_clauses("c10", "C10-R3", ["residual-masks:", "tries-filtered-from-masks"], "C02-R6")

