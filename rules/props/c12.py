"""C12 — rolling back tokens restores exactly the earlier state (structural clauses)."""
from .. import facts as F
from .. import lib as L

PS = "llguidance::earley::parser::ParserState"
PARSER = "llguidance::earley::parser::Parser"
TP = "llguidance::tokenparser::TokenParser"
NS = "llguidance::earley::parser::"

META = dict(
    explanation=(
        "Static analysis over MIR (transitive field-effect summaries, dominance, must-pass). Decided "
        "clauses: R1 every ParserState field written by anything reachable from the committing / "
        "querying entry points (apply_token, force_bytes, scan_eos, compute_bias, validate_tokens, "
        "is_accepting) is written or truncated by ParserState::rollback, or is in the frozen "
        "non-restored table (memo, diagnostics, bracket registers, sticky error) with its reason; "
        "R2 the same at TokenParser level, plus: TokenParser::rollback calls Parser::rollback and "
        "clear_caches on the success path, after check_initialized; Parser::rollback is guarded by "
        "check_rollback; Matcher::rollback goes through the sticky-error wrapper; R3 the "
        "lexer-stack/bytes invariant check runs before and after the truncation."
    ),
    not_decided=(
        "equality of all future behaviour with a fresh engine (semantic); exact byte accounting of "
        "multi-byte, forced and EOS tokens"
    ),
)
META["explanation"] += (
    " Added after the independent seeding rounds 2-3: " "R4 the bytes dropped by TokenParser::rollback charge token_len exactly for tokens outside eos_tokens (loop or iterator form) and the same count goes to Parser::rollback and the llm_bytes truncation. R5 token_len agrees with decode_raw's special-token encoding (relational digit-loop bound). R6 the commit path removes from lexer_stack only the flush entry and never overwrites a surviving entry in the token-range arm."
)

NON_RESTORED = {
    "backtrack_byte_count": "working register, reset by mem::take in try_push_byte_definitive; asserted 0 by assert_definitive",
    "captures": "capture log is append-only output, not among the property's observables (mask, accepting, forced bytes, stop)",
    "lexer_stack_flush_position": "bracket register reset by trie_finished_inner / apply_token",
    "max_all_items": "self-resetting limit register (with_items_limit)",
    "parser_error": "sticky failure: rollback refuses when set (ensure at entry)",
    "rows": "memo: rows beyond num_rows() are dead; re-use is fenced by rows_valid_end which rollback resets",
    "scratch": "arena + working registers: items/grammar_stack entries beyond live rows are dead; definitive flag restored by brackets",
    "shared_box": "lexer tables: append-only memo (C14-R3)",
    "stats": "diagnostic counters",
    "metrics": "diagnostic",
    "trace_byte_stack": "ITEM_TRACE diagnostics",
    "trace_stats0": "ITEM_TRACE diagnostics",
    "trace_start": "ITEM_TRACE diagnostics",
    "perf_counters": "timing only",
}
TP_NON_RESTORED = {
    "compute_mask_start_time": "timing",
    "last_bias_time": "timing",
    "last_step_stats": "diagnostic",
    "max_step_stats": "diagnostic",
    "had_backtrack": "diagnostic flag",
    "had_rollback": "diagnostic flag",
    "logger": "log buffer",
    "error_message": "sticky error text: rollback refuses in error states (check_initialized after un-stopping only normal stops)",
    "parser": "delegated: Parser::rollback must be called (checked below)",
    "is_fresh": "set once by process_prompt/start_without_prompt",
    "stats": "diagnostic",
}


def bracket_register(P, adt, f):
    """a scalar field written only by the speculative bracket opener (plus struct literals) and read only by the two
    bracket functions: it carries no state from one operation to the next"""
    BR = {PS + "::trie_started_inner", PS + "::trie_finished_inner"}
    writers, readers = set(), set()
    for b in P.bodies.values():
        if not P._is_code(b):
            continue
        w, m, r = P.own_effects(b)
        if (adt, f) in w or any(x[0] == (adt, f) for x in m):
            writers.add(b.id)
        if (adt, f) in r and not b.rec.get("derived"):  # the derived Clone copies every field
            readers.add(b.id)
    return bool(writers) and writers <= {PS + "::trie_started_inner"} and readers <= BR


def run(ctx):
    P = ctx.prog
    # ------------------------------------------------------------ R1 parser level
    roots = [PARSER + "::" + m for m in ("apply_token", "force_bytes", "scan_eos", "compute_bias", "validate_tokens", "is_accepting")]
    for r in roots:
        ctx.body(r)
    rb = ctx.body(PS + "::rollback")
    eff = P.transitive_effects(roots)
    D = L.fields_written(eff, (PS,))
    D = {k: v for k, v in D.items() if k[0] == PS}
    ctx.floor("C12-R1", "ParserState fields written on commit/query paths", len(D), 15)
    R = L.fields_written(P.transitive_effects([rb.id], stop={PS + "::assert_definitive"}), (PS,))
    R = {k: v for k, v in R.items() if k[0] == PS}
    for (a, f), (how, src) in sorted(D.items()):
        if (a, f) in R:
            rhow = R[(a, f)][0]
            # a Vec field must be shrunk (truncate), a scalar assigned
            ctx.ok("C12-R1", f, "written by %s (%s); restored by rollback (%s)" % (src.rsplit("::", 1)[1], how, rhow))
        elif f in NON_RESTORED:
            ctx.ok("C12-R1", f, "not restored — " + NON_RESTORED[f])
        elif bracket_register(P, a, f):
            ctx.ok("C12-R1", f, "not restored — bracket register: assigned only by trie_started_inner (and the constructor) and read "
                                "only by the bracket functions, so its value is dead between brackets (decided structurally, by any name)")
        else:
            ctx.violation("C12-R1", "unrestored:" + f,
                          "ParserState.%s is written (%s) by %s on a commit/query path but ParserState::rollback neither "
                          "writes nor truncates it, and it is not a classified memo/diagnostic field" % (f, how, src),
                          site=rb.where())
    # history vectors must be *shrunk* by rollback
    for f in ("byte_to_token_idx", "bytes", "lexer_stack", "row_infos"):
        w, m, r = P.own_effects(rb)
        shr = [c for (fld, c) in m if fld == (PS, f) and L.is_shrinker(c)]
        ctx.check(bool(shr), "C12-R1", "truncates:" + f, "rollback truncates %s" % f,
                  "ParserState::rollback no longer truncates the history vector `%s`" % f, site=rb.where())
    # every *successful* exit of ParserState::rollback has passed every restore write: an early
    # `return Ok(())` (e.g. for n_bytes == 0, which still carries an EOS flush) skips the restore
    ok_rets = [bi for bi, si, st in rb.statements() if st["s"] == "assign" and st["p"] == [0] and st["r"]["rv"] == "agg"
               and isinstance(st["r"]["kind"], dict) and st["r"]["kind"].get("variant") == "Ok"]
    if ctx.floor("C12-R1", "Ok returns of ParserState::rollback", len(ok_rets), 1):
        be = P.block_effects(rb)
        for (a, f) in sorted(R):
            wb = [bi for bi, (w, m, r) in be.items() if (a, f) in w or any(x[0] == (a, f) for x in m)]
            reach = rb.reachable(0, cut_blocks=wb)
            bad = [o for o in ok_rets if o in reach]
            ctx.check(bool(wb) and not bad, "C12-R1", "all-success-paths-restore:" + f,
                      "every path to an Ok return of rollback passes the restore of %s" % f,
                      "ParserState::rollback has a success path (Ok return at %s) that skips the restore of `%s` — e.g. an early "
                      "return for a zero-byte rollback, which still has to undo an EOS flush" % (rb.where(bad[0]) if bad else "?", f),
                      site=rb.where(bad[0]) if bad else rb.where())
    # a field added to ParserState must be classified: every field is either in D∪R or the table
    adt = P.adts.get(PS)
    if adt:
        for fld in adt["variants"][0]["fields"]:
            n = fld["name"]
            known = (PS, n) in D or (PS, n) in R or n in NON_RESTORED or bracket_register(P, PS, n) or n in (
                "grammar", "tok_env", "limits", "special_token_marker_token")
            ctx.check(known, "C12-R1", "classified:" + n, "field classified",
                      "ParserState.%s is a new/unclassified field: decide whether rollback must restore it" % n,
                      site="%s:%s" % (adt["file"], adt["line"]))

    # ------------------------------------------------------------ R6 the commit path keeps lexer_stack aligned with the bytes
    # rollback truncates lexer_stack to bytes+1 entries and relies on entry i+1 being the state after byte i.  The only
    # place where the commit path removes an entry is the token-range arm of apply_token, which must delete exactly the
    # flush entry (`remove(lexer_stack_flush_position)`, an entry that corresponds to no byte) and must not overwrite
    # a surviving entry with it.
    at = ctx.body(PS + "::apply_token")
    shr, over = [], []
    for bi, (w, m, r) in P.block_effects(at).items():
        for (fld, c) in m:
            if fld != (PS, "lexer_stack"):
                continue
            if L.is_shrinker(c):
                shr.append((bi, c))
            elif c.endswith(("::deref_mut", "::index_mut", "::last_mut", "::get_mut", "::as_mut_slice", "::iter_mut", "::swap")):
                over.append((bi, c))
    ok = bool(shr) and all(c.endswith("Vec::<T, A>::remove") and L.role(at, at.blocks[bi]["term"]["args"][1]).endswith(".lexer_stack_flush_position")
                           for bi, c in shr)
    ctx.check(ok, "C12-R6", "apply_token:removes-only-the-flush-entry", "lexer_stack shrinks only by remove(lexer_stack_flush_position)",
              "ParserState::apply_token shrinks lexer_stack with %s: the byte/entry alignment rollback relies on is not preserved"
              % sorted({c.rsplit("::", 1)[1] for _, c in shr}), site=at.where(shr[0][0]) if shr else at.where())
    num = at.call_blocks(PS + "::flush_and_check_numeric")
    reach = set()
    for nb in num:
        reach |= at.reachable(nb)
    bad = [bi for bi, c in over if bi in reach]
    ctx.check(bool(num) and not bad, "C12-R6", "apply_token:no-entry-overwrite-in-token-range-arm",
              "after the flush of the token-range arm no surviving lexer_stack entry is overwritten",
              "ParserState::apply_token overwrites a lexer_stack entry after flushing for a token-range token: the entry for the last "
              "byte then holds the flushed state and a rollback to that boundary restores a closed lexeme", site=at.where(bad[0]) if bad else at.where())

    # ------------------------------------------------------------ R2 token level
    tp_roots = [TP + "::" + m for m in ("consume_token", "compute_mask", "check_stop", "compute_ff_tokens",
                                         "consume_ff_tokens", "validate_tokens_raw", "validate_token", "force_bytes")]
    for r in tp_roots:
        ctx.body(r)
    trb = ctx.body(TP + "::rollback")
    Dt = {k: v for k, v in L.fields_written(P.transitive_effects(tp_roots), (TP,)).items() if k[0] == TP}
    Rt = {k: v for k, v in L.fields_written(P.transitive_effects([trb.id], stop={PARSER + "::rollback"}), (TP,)).items() if k[0] == TP}
    ctx.floor("C12-R2", "TokenParser fields written on commit/query paths", len(Dt), 8)
    for (a, f), (how, src) in sorted(Dt.items()):
        if (a, f) in Rt and f != "parser":
            ctx.ok("C12-R2", f, "written by %s; restored by TokenParser::rollback (%s)" % (src.rsplit("::", 1)[1], Rt[(a, f)][0]))
        elif f in TP_NON_RESTORED:
            ctx.ok("C12-R2", f, "not restored — " + TP_NON_RESTORED[f])
        else:
            ctx.violation("C12-R2", "unrestored:" + f,
                          "TokenParser.%s is written (%s) by %s on a commit/query path but TokenParser::rollback does not "
                          "restore it" % (f, how, src), site=trb.where())
    for f in ("llm_tokens", "llm_bytes"):
        w, m, r = P.own_effects(trb)
        shr = [c for (fld, c) in m if fld == (TP, f) and L.is_shrinker(c)]
        ctx.check(bool(shr), "C12-R2", "truncates:" + f, "TokenParser::rollback truncates %s" % f,
                  "TokenParser::rollback no longer truncates `%s`" % f, site=trb.where())
    # must-call Parser::rollback, then truncate + clear on its success path
    calls = trb.call_blocks(PARSER + "::rollback")
    if ctx.floor("C12-R2", "call of Parser::rollback in TokenParser::rollback", len(calls), 1):
        cb = calls[0]
        fail = L.failure_edges_of_call(trb, cb)
        ctx.check(bool(fail), "C12-R2", "parser-rollback:error-propagated",
                  "the result of Parser::rollback is propagated with `?`",
                  "TokenParser::rollback ignores the result of Parser::rollback", site=trb.where(cb))
        for what, blocks in (
            ("clear_caches", trb.call_blocks(TP + "::clear_caches")),
            ("llm_tokens.truncate", [bi for bi, (w, m, r) in P.block_effects(trb).items()
                                     if any(fld == (TP, "llm_tokens") and L.is_shrinker(c) for fld, c in m)]),
            ("llm_bytes.truncate", [bi for bi, (w, m, r) in P.block_effects(trb).items()
                                    if any(fld == (TP, "llm_bytes") and L.is_shrinker(c) for fld, c in m)]),
        ):
            bad = L.must_pass(trb, [cb], blocks, cut_edges=fail)
            ctx.check(bool(blocks) and not bad, "C12-R2", "after-parser-rollback:" + what,
                      "%s lies on every success path after Parser::rollback" % what,
                      "a success path of TokenParser::rollback skips %s" % what, site=trb.where(cb))
        # the token-level truncations must not precede a failing parser rollback: they are after the call
        for what, fld in (("llm_tokens", (TP, "llm_tokens")), ("llm_bytes", (TP, "llm_bytes"))):
            tr = [bi for bi, (w, m, r) in P.block_effects(trb).items() if any(f2 == fld and L.is_shrinker(c) for f2, c in m)]
            before = [b for b in tr if b in trb.reachable(0, cut_blocks=[cb])]
            ctx.check(not before, "C12-R2", "order:%s-after-parser" % what,
                      "%s is truncated only after Parser::rollback succeeded" % what,
                      "%s is truncated before Parser::rollback has succeeded (a refused rollback would leave token and "
                      "parser histories out of step)" % what, site=trb.where(tr[0]) if tr else None)
        # byte accounting mirrors commit: consume_token pushes no bytes for a token of the EOS *set* (eos_tokens) and
        # token_len bytes for any other; the bytes dropped here must be computed with the same predicate and measure
        # (Seed C12-r2: `tok != eos_token()` — the primary EOS only — charges a secondary EOS bytes never pushed.)
        TLEN = "toktrie::toktree::TokTrie::token_len"

        def eos_set_contains(e):
            return (e[0] == "call" and e[1].endswith("::contains") and e[2]
                    and L.is_field_read(TP, "eos_tokens")(L.strip_views(e[2][0])))
        # direct sites (loop form); sites projected from an unknown closure are handled as the iterator form
        tl = [bi for bi in trb.call_blocks(TLEN) if not trb.blocks[bi]["term"].get("via_closure")]
        tl_closures = [P.any_body(c) for c in P.closures_of(trb.id, include_hidden=True)
                       if P.any_body(c) is not None and P.any_body(c).call_blocks(TLEN)]
        ctx.check(bool(tl) or bool(tl_closures), "C12-R4", "rollback-bytes:token_len-accumulation", "the bytes to drop are a sum of token_len(tok)",
                  "TokenParser::rollback no longer sums token_len over the rolled-back tokens", site=trb.where())
        if tl:
            # loop form
            ge = L.guard_edges(trb, eos_set_contains, False)
            still = L.dominated_by_cut(trb, tl, ge) if ge else tl
            ctx.check(bool(ge) and not still, "C12-R4", "rollback-bytes:eos-set-members-count-zero",
                      "token_len is charged only for tokens outside TokenParser.eos_tokens (the set consume_token's EOS arm uses)",
                      "TokenParser::rollback charges token bytes without excluding every member of eos_tokens: commit pushes "
                      "no bytes for any EOS token, so rolling back over a secondary EOS drops bytes that were never pushed",
                      site=trb.where(tl[0]))
        elif tl_closures:
            # iterator form: tokens.iter().filter(|t| !self.eos_tokens.contains(t)).map(|t| token_len(t)).sum()
            ok = False
            for bi, t in trb.calls():
                e = ("call", t["f"].get("def", ""), [trb.expr(a) for a in t["args"]], bi)
                chain = []
                cur = e
                while cur[0] == "call" and cur[2]:
                    chain.append(cur)
                    cur = cur[2][0]
                names = [c[1].rsplit("::", 1)[-1] for c in chain]
                if "map" in names and "filter" in names and names.index("map") < names.index("filter"):
                    mp, fl = chain[names.index("map")], chain[names.index("filter")]
                    m_ok = any(c in [x.id for x in tl_closures] for c in L._closures_in(mp[2][1]))
                    f_ok = False
                    for c in L._closures_in(fl[2][1]):
                        clb = P.any_body(c)
                        if clb is None:
                            continue
                        def eos_upvar(x, _clb=clb):
                            if not (x[0] == "call" and x[1].endswith("::contains") and x[2]):
                                return False
                            src = L.upvar_source(P, _clb, L.strip_views(x[2][0]))
                            return src is not None and L.is_field_read(TP, "eos_tokens")(L.strip_views(src))
                        if L._returns_guard_value(clb, [(eos_upvar, False)]):
                            f_ok = True
                    ok = ok or (m_ok and f_ok)
            ctx.check(ok, "C12-R4", "rollback-bytes:eos-set-members-count-zero",
                      "token_len is mapped only over tokens that pass `!eos_tokens.contains(tok)`",
                      "TokenParser::rollback sums token_len without filtering out every member of eos_tokens: commit pushes no bytes "
                      "for any EOS token, so rolling back over a secondary EOS drops bytes that were never pushed", site=trb.where())
        ct = ctx.body(TP + "::consume_token")
        gc = L.guard_edges(ct, eos_set_contains, True)
        ctx.check(bool(gc), "C12-R4", "commit-side:eos-arm-uses-eos-set", "consume_token's no-bytes arm tests eos_tokens.contains(tok)",
                  "consume_token no longer tests eos_tokens.contains(tok): the rollback accounting has no matching commit predicate",
                  site=ct.where())
        # the same byte count goes to Parser::rollback and to the llm_bytes truncation
        t = trb.blocks[cb]["term"]
        acc = F.fmt_expr(trb.expr(t["args"][1])) if len(t["args"]) > 1 else None
        ok = False
        detail = "?"
        for bi, (w, m, r) in P.block_effects(trb).items():
            if any(fld == (TP, "llm_bytes") and L.is_shrinker(c) for fld, c in m):
                tt = trb.blocks[bi]["term"]
                e = trb.expr(tt["args"][1]) if tt["t"] == "call" and len(tt["args"]) > 1 else None
                detail = F.fmt_expr(e) if e else "?"
                if e and e[0] == "bin" and e[1].startswith("Sub"):
                    lhs_ok = e[2][0] == "call" and e[2][1].endswith("::len") and e[2][2] and L.is_field_read(TP, "llm_bytes")(L.strip_views(e[2][2][0]))
                    ok = lhs_ok and acc is not None and F.fmt_expr(e[3]) == acc
        ctx.check(ok, "C12-R4", "rollback-bytes:same-count-for-parser-and-llm_bytes",
                  "llm_bytes is truncated to len - n where n is the very count passed to Parser::rollback",
                  "llm_bytes is truncated to `%s`, which is not llm_bytes.len() minus the byte count given to Parser::rollback (`%s`)" % (detail, acc), site=trb.where(cb))
        # token_len must agree with the bytes decode_raw produced for special tokens (shared with C16-R7)
        from . import c16 as _c16
        _c16.token_len_rule(ctx, "C12-R5")
        # check_initialized dominates the parser rollback
        ci = L.guard_edges(trb, L.is_call_to(TP + "::check_initialized"), True)
        still = L.dominated_by_cut(trb, [cb], ci) if ci else [cb]
        ctx.check(bool(ci) and not still, "C12-R2", "guard:check_initialized",
                  "Parser::rollback is dominated by the Ok edge of check_initialized (error states refuse)",
                  "TokenParser::rollback reaches Parser::rollback without passing check_initialized", site=trb.where(cb))
        # n_tokens <= llm_tokens.len() guard
        le = L.guard_edges(trb, lambda e: e[0] == "bin" and e[1] == "Le" and e[3][0] == "call" and e[3][1].endswith("::len"), True)
        still = L.dominated_by_cut(trb, [cb], le) if le else [cb]
        ctx.check(bool(le) and not still, "C12-R2", "guard:n_tokens<=len",
                  "Parser::rollback is dominated by n_tokens <= llm_tokens.len()",
                  "TokenParser::rollback no longer checks n_tokens against the token history length", site=trb.where(cb))
    # stop_reason reset only under is_ok()
    sr = [bi for bi, (w, m, r) in P.block_effects(trb).items() if (TP, "stop_reason") in w]
    ok_edges = L.guard_edges(trb, L.is_call_to("llguidance::api::StopReason::is_ok"), True)
    still = L.dominated_by_cut(trb, sr, ok_edges) if ok_edges else sr
    ctx.check(bool(sr) and bool(ok_edges) and not still, "C12-R2", "unstop-only-normal-stops",
              "stop_reason is reset only under stop_reason.is_ok()",
              "TokenParser::rollback clears stop_reason without the is_ok() guard (would resurrect failed engines)",
              site=trb.where(sr[0]) if sr else trb.where())
    # Parser::rollback guarded by check_rollback
    prb = ctx.body(PARSER + "::rollback")
    cr = L.guard_edges(prb, L.is_call_to("llguidance::earley::lexerspec::LexerSpec::check_rollback"), True)
    inner = prb.call_blocks(PARSER + "::with_shared")
    still = L.dominated_by_cut(prb, inner, cr) if cr else inner
    ctx.check(bool(inner) and bool(cr) and not still, "C12-R2", "guard:check_rollback",
              "ParserState::rollback is reached only on the Ok edge of check_rollback()",
              "Parser::rollback reaches the state rollback without check_rollback(): grammars with stop=/max_tokens= "
              "would be rolled back although their history is not byte-aligned", site=prb.where())
    cl = [c for c in P.closures_of(prb.id)]
    reach = P.reachable_from(cl)
    ctx.check(rb.id in reach, "C12-R2", "parser-rollback-calls-state-rollback",
              "Parser::rollback's with_shared closure calls ParserState::rollback",
              "Parser::rollback no longer reaches ParserState::rollback", site=prb.where())
    # Matcher::rollback through with_inner
    mrb = ctx.body("llguidance::matcher::Matcher::rollback")
    ctx.check(bool(mrb.call_blocks("llguidance::matcher::Matcher::with_inner")), "C12-R2", "matcher-rollback-wrapped",
              "Matcher::rollback goes through with_inner (sticky error wrapper)",
              "Matcher::rollback bypasses with_inner", site=mrb.where())

    # ------------------------------------------------------------ R7 token budget: charged per recorded token, refunded per removed token
    # TokenParser::rollback gives max_tokens_total back one unit per token it removes from llm_tokens.  For the budget to be
    # restored *exactly*, every token consume_token records in llm_tokens (directly, or through TokenParser::apply_token)
    # must have been charged one unit first: on every path of consume_token, the growth of llm_tokens is preceded by the
    # decrement of max_tokens_total.  (A path that charges without recording — the EOS eaten by a gen() — is not rolled
    # back by token and is outside this rule.)
    ct = ctx.body(TP + "::consume_token")
    be = P.block_effects(ct)
    charge = []
    for bi, si, st in ct.statements():
        if st["s"] == "assign" and F.place_fields(st["p"])[-1:] == [(TP, "max_tokens_total")]:
            e = ct.expr_rvalue(st["r"])
            if e[0] == "bin" and e[1] == "Sub":
                charge.append(bi)
    for bi, t in ct.calls():
        d = t["f"].get("def", "")
        if d.rsplit("::", 1)[-1] in ("saturating_sub", "checked_sub", "wrapping_sub") and t["args"] and L.is_field_read(TP, "max_tokens_total")(L.strip_wrappers(ct.expr(t["args"][0]))):
            charge.append(bi)
    # a helper that charges and reports through its Result (`self.charge()?`): when every Ok return of the helper is preceded by the
    # decrement, the Continue arm of the `?` on that call is a charge point (the Err arm leaves consume_token)
    def _charges_on_ok(hb):
        ch = []
        for bi_, si_, st_ in hb.statements():
            if st_["s"] == "assign" and F.place_fields(st_["p"])[-1:] == [(TP, "max_tokens_total")]:
                ev = hb.expr_rvalue(st_["r"])
                if (ev[0] == "bin" and ev[1] == "Sub") or (ev[0] == "call" and "sub" in ev[1].rsplit("::", 1)[-1]) or ev[0] in ("place", "local"):
                    ch.append(bi_)
        oks = [bi_ for bi_, si_, st_ in hb.statements() if st_["s"] == "assign" and st_["p"] == [0] and st_["r"].get("rv") == "agg"
               and isinstance(st_["r"].get("kind"), dict) and st_["r"]["kind"].get("variant") == "Ok"]
        return bool(ch) and bool(oks) and not [o for o in oks if o in hb.reachable(0, cut_blocks=ch)]
    hidden = getattr(P, "hidden", {})
    for sb, e, targets, otherwise in ct.switch_edges():
        if e[0] == "discr" and e[1][0] == "call" and e[1][1].endswith("Try>::branch") and e[1][2] and e[1][2][0][0] == "call":
            hid = e[1][2][0][1]
            hb = hidden.get(hid) or P.bodies.get(hid)
            if hb is not None and hid.startswith(TP + "::") and _charges_on_ok(hb):
                charge += [t for v, t in targets if int(v) == 0]
    grow = [bi for bi, (w, m, r) in be.items() if any(fld == (TP, "llm_tokens") and c.rsplit("::", 1)[-1] in ("push", "extend", "extend_from_slice", "append", "insert") for fld, c in m)]
    grow += ct.call_blocks(TP + "::apply_token")
    uncharged = [g for g in grow if g in ct.reachable(0, cut_blocks=charge)] if charge else grow
    ctx.check(bool(charge) and bool(grow) and not uncharged, "C12-R7", "budget:charge-precedes-recording",
              "every token recorded by consume_token (llm_tokens.push / apply_token) is preceded on all paths by the decrement of max_tokens_total",
              "consume_token can record a token in llm_tokens without having charged max_tokens_total (e.g. the terminating EOS): rollback refunds one unit per "
              "removed token, so rolling such a token back inflates the remaining budget and the engine outlives a fresh one",
              site=ct.where(uncharged[0]) if uncharged else ct.where())
    # the refund is the number of tokens removed
    refund = []
    for bi, si, st in trb.statements():
        if st["s"] == "assign" and F.place_fields(st["p"])[-1:] == [(TP, "max_tokens_total")]:
            refund.append((bi, trb.expr_rvalue(st["r"])))
    okr = False
    for bi, e in refund:
        # `checked_add(n).unwrap_or(usize::MAX)` is saturating_add(n)
        while e[0] == "call" and e[1].rsplit("::", 1)[-1] in ("unwrap_or", "unwrap", "unwrap_or_else", "unwrap_or_default", "expect") and e[2]:
            e = e[2][0]
        args = e[2] if e[0] == "call" and e[1].rsplit("::", 1)[-1] in ("saturating_add", "checked_add", "wrapping_add") else (e[2:4] if e[0] == "bin" and e[1] == "Add" else None)
        if args and len(args) == 2:
            roles = {F.fmt_expr(L.strip_wrappers(a)) for a in args}
            okr = okr or any(a[0] == "place" and a[1] == [2] for a in (L.strip_wrappers(x) for x in args))
    ctx.check(bool(refund) and okr, "C12-R7", "budget:refund-is-n_tokens", "rollback adds its n_tokens argument back to max_tokens_total",
              "TokenParser::rollback no longer refunds max_tokens_total by the number of tokens it removes", site=trb.where(refund[0][0]) if refund else trb.where())

    # ------------------------------------------------------------ R3 invariant checks around truncation
    asserts = rb.call_blocks(PS + "::assert_definitive")
    trunc = [bi for bi, (w, m, r) in P.block_effects(rb).items()
             if any(fld == (PS, "lexer_stack") and L.is_shrinker(c) for fld, c in m)]
    if ctx.floor("C12-R3", "assert_definitive calls in rollback", len(asserts), 2) and trunc:
        t = trunc[0]
        pre = [a for a in asserts if t not in rb.reachable(0, cut_blocks=[a])]
        post = L.must_pass(rb, [t], [a for a in asserts if a not in pre])
        ctx.check(bool(pre), "C12-R3", "assert-before", "assert_definitive dominates the truncation",
                  "rollback truncates history without first checking the definitive-mode invariant", site=rb.where(t))
        ctx.check(not post and len(asserts) > len(pre), "C12-R3", "assert-after", "assert_definitive post-dominates the truncation",
                  "rollback does not re-check the lexer-stack/bytes invariant after truncation", site=rb.where(t))
    # the byte-count guard
    le = L.guard_edges(rb, lambda e: e[0] == "bin" and e[1] == "Le" and e[3][0] == "call" and e[3][1].endswith("::len"), True)
    still = L.dominated_by_cut(rb, trunc, le) if le else trunc
    ctx.check(bool(le) and not still, "C12-R3", "guard:n_bytes<=len", "truncation dominated by n_bytes <= byte_to_token_idx.len()",
              "ParserState::rollback truncates without checking n_bytes against the history length", site=rb.where())
    pe = L.guard_edges(rb, lambda e: e[0] == "call" and e[1].endswith("::is_none") and e[2] and L.is_field_read(PS, "parser_error")(e[2][0]), True)
    still = L.dominated_by_cut(rb, trunc, pe) if pe else trunc
    ctx.check(bool(pe) and not still, "C12-R3", "guard:no-parser-error", "truncation dominated by parser_error.is_none()",
              "ParserState::rollback proceeds although a sticky parser error is set", site=rb.where())
