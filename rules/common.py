"""Check context: obligations, violations, anchors/floors (fail closed), known findings,
evidence and report files."""
import hashlib
import json
import os
import re
import time

from . import facts as F

VERIF = os.path.dirname(os.path.dirname(os.path.abspath(__file__)))


class AnchorMissing(Exception):
    pass


class Ctx:
    def __init__(self, prop, prog, tier="quick", config="default"):
        self.prop = prop
        self.prog = prog
        self.tier = tier
        self.config = config
        self.obligations = []  # dict(rule, instance, status, detail, site)
        self.infos = []
        self.rules_seen = {}

    # ---- recording
    def ok(self, rule, instance, detail="", site=None):
        self.obligations.append(dict(rule=rule, instance=instance, status="ok", detail=detail, site=site))

    def violation(self, rule, key, what, site=None, path=None):
        self.obligations.append(
            dict(rule=rule, instance=key, status="violation", detail=what, site=site, path=path)
        )

    def info(self, rule, what):
        self.infos.append(dict(rule=rule, info=what))

    def check(self, cond, rule, instance, what_ok, what_bad=None, site=None, path=None):
        if cond:
            self.ok(rule, instance, what_ok, site)
        else:
            self.violation(rule, instance, what_bad or ("NOT: " + what_ok), site, path)
        return cond

    # ---- anchors (fail closed)
    def body(self, id, rule="anchor"):
        b = self.prog.body(id)
        if b is None:
            raise AnchorMissing(id)
        return b

    def try_body(self, id, rule):
        b = self.prog.body(id)
        if b is None:
            self.violation(rule, "anchor-missing:" + id, "anchor function %s not found in the analysed program" % id)
        return b

    def floor(self, rule, what, count, minimum):
        """a rule that matches fewer instances than were confirmed by hand is blind, not green"""
        if count < minimum:
            self.violation(
                rule,
                "floor:" + what,
                "rule matched %d instance(s) of %s, fewer than the %d confirmed on the pinned tree — anchors drifted"
                % (count, what, minimum),
            )
            return False
        return True

    # ---- clauses shared with another property's check
    def import_clauses(self, module_name, rule, instance_prefixes, as_rule):
        """evaluate another property's rules on the same program and adopt the obligations of `rule` whose instance starts
        with one of `instance_prefixes`, relabelled `as_rule` (a necessary condition shared by two properties is decided
        once, by one piece of code).  Fails closed: if nothing matches, that is a violation."""
        import importlib
        cache = getattr(self.prog, "_clause_cache", None)
        if cache is None:
            cache = self.prog._clause_cache = {}
        if module_name not in cache:
            mod = importlib.import_module("rules.props." + module_name)
            sub = Ctx(module_name.upper(), self.prog, self.tier, self.config)
            try:
                mod.run(sub)
            except AnchorMissing as e:
                sub.violation("anchor", "anchor-missing:%s" % e, "anchor %s not found" % e)
            cache[module_name] = sub.obligations
        n = 0
        for o in cache[module_name]:
            if o["rule"] == rule and any(o["instance"].startswith(p) for p in instance_prefixes):
                o2 = dict(o)
                o2["rule"] = as_rule
                self.obligations.append(o2)
                n += 1
        if n == 0:
            self.violation(as_rule, "shared-clauses-missing:%s:%s" % (rule, ",".join(instance_prefixes)),
                           "no obligation of %s matching %s was produced by %s" % (rule, instance_prefixes, module_name))
        return n

    # ---- results
    def violations(self):
        return [o for o in self.obligations if o["status"] == "violation"]


def norm_key(s):
    return re.sub(r"\s+", " ", s.strip())


def load_known(prop):
    p = os.path.join(VERIF, "known_findings.jsonl")
    out = {}
    if os.path.exists(p):
        for line in open(p):
            line = line.strip()
            if not line or line.startswith("#"):
                continue
            r = json.loads(line)
            if prop in r.get("properties", [r.get("property")]) and r.get("status") == "known":
                out[norm_key(r["key"])] = r
    return out


def finish(ctx, meta, t0, seed=0, extra_cov=None):
    """prints KNOWN-FINDING / VIOLATION lines, writes evidence + reports; returns exit code"""
    prop = ctx.prop
    known = load_known(prop)
    rep_dir = os.path.join(VERIF, "reports", prop)
    os.makedirs(rep_dir, exist_ok=True)
    # remove stale reports of this property
    for f in os.listdir(rep_dir):
        try:
            os.unlink(os.path.join(rep_dir, f))
        except OSError:
            pass
    new = []
    known_hit = []
    for v in ctx.violations():
        key = norm_key("%s:%s" % (v["rule"], v["instance"]))
        if key in known:
            known_hit.append((key, v, known[key]))
        else:
            new.append((key, v))
    for key, v, k in known_hit:
        print("KNOWN-FINDING: property=%s %s — %s" % (prop, key, k.get("what", v["detail"])))
    for key, v in new:
        h = hashlib.sha1(key.encode()).hexdigest()[:12]
        path = os.path.join(rep_dir, h + ".json")
        with open(path, "w") as f:
            json.dump(
                dict(property=prop, key=key, rule=v["rule"], instance=v["instance"], what=v["detail"],
                     site=v.get("site"), path=v.get("path"), config=ctx.config),
                f, indent=1)
        print("VIOLATION property=%s replay=%s" % (prop, path))
        print("  rule=%s instance=%s" % (v["rule"], v["instance"]))
        print("  site=%s" % (v.get("site"),))
        print("  what=%s" % v["detail"])
        if v.get("path"):
            print("  path=%s" % (" -> ".join(v["path"]) if isinstance(v["path"], list) else v["path"]))
    obl = ctx.obligations
    n_ok = sum(1 for o in obl if o["status"] == "ok")
    rules = {}
    for o in obl:
        r = rules.setdefault(o["rule"], dict(ok=0, violation=0))
        r[o["status"]] += 1
    # samples: a few obligations per rule, as they were evaluated
    samples = []
    per = {}
    for o in obl:
        c = per.get(o["rule"], 0)
        if c < 3:
            per[o["rule"]] = c + 1
            samples.append({k: o[k] for k in ("rule", "instance", "status", "detail", "site") if o.get(k) is not None})
    cov = dict(
        explanation=meta["explanation"],
        obligations=len(obl),
        discharged=n_ok,
        known_findings_reported=len(known_hit),
        new_violations=len(new),
        rules=rules,
        not_decided=meta.get("not_decided", ""),
        functions_analysed=sum(1 for b in ctx.prog.bodies.values() if b.kind not in ("promoted", "const", "static")),
        bodies_by_crate=ctx.prog.crates,
        call_edges=sum(len(v) for v in ctx.prog.callgraph().values()),
        config=ctx.config,
        samples=samples,
        infos=ctx.infos[:40],
        checker_cmd="./check %s --tier %s" % (prop, ctx.tier),
        trusted_base=meta.get(
            "trusted_base",
            ["rustc nightly front-end and MIR construction", "llg-facts exporter (/verif/driver)",
             "rule tables in /verif/rules (anchors, allowlists with reasons)",
             "external crates by summary: derivre, serde_json, rayon, tokenizers"],
        ),
        exhaustive=True,
    )
    if extra_cov:
        cov.update(extra_cov)
    ev = dict(
        property_id=prop,
        tier=ctx.tier,
        seed=seed,
        level="other",
        coverage=cov,
        assumptions=meta.get("assumptions", [
            "the MIR of the analysed feature configuration (dev profile, nightly front-end) is the program",
            "structural clauses are necessary conditions of the behavioural property; the behaviour itself is not decided",
        ]),
        wall_s=round(time.time() - t0, 2),
        violations=len(new),
    )
    # mutation tooling (tools/runmut.py, tools/seed_check.sh) runs the check on a deliberately broken tree: such a
    # run must not overwrite the evidence of the real tree
    if not os.environ.get("VERIF_NO_EVIDENCE"):
        os.makedirs(os.path.join(VERIF, "evidence"), exist_ok=True)
        with open(os.path.join(VERIF, "evidence", prop + ".json"), "w") as f:
            json.dump(ev, f, indent=1, sort_keys=False)
    print("%s: %d obligations, %d discharged, %d known finding(s), %d new violation(s) [%s, %s, %.1fs]" % (
        prop, len(obl), n_ok, len(known_hit), len(new), ctx.tier, ctx.config, time.time() - t0))
    return 1 if new else 0
