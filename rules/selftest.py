"""Self-test of the generic rule kinds on /verif/fixtures (a tiny crate of deliberately good and bad code).
Run on every check: a rule kind that stops firing (driver drift, refactoring of lib.py) makes every check exit 2
instead of passing vacuously."""
import fcntl
import glob
import hashlib
import os
import shutil
import subprocess

from . import extract, facts as F, lib as L

FIX = os.path.join(extract.VERIF, "fixtures")
S = "llgfix::S"


def fixture_facts():
    h = hashlib.sha256()
    for p in (os.path.join(FIX, "src", "lib.rs"), os.path.join(extract.DRIVER_DIR, "src", "main.rs")):
        h.update(open(p, "rb").read())
    out = os.path.join(extract.CACHE, "facts-fixtures-" + h.hexdigest()[:16])
    os.makedirs(extract.CACHE, exist_ok=True)
    lock = open(os.path.join(extract.CACHE, "lock-fixtures"), "w")
    fcntl.flock(lock, fcntl.LOCK_EX)
    try:
        if os.path.exists(os.path.join(out, "DONE")):
            return out
        extract.ensure_driver()
        tmp = out + ".tmp%d" % os.getpid()
        shutil.rmtree(tmp, ignore_errors=True)
        os.makedirs(tmp)
        env = extract._env()
        env["LD_LIBRARY_PATH"] = extract.sysroot_lib() + ":" + env.get("LD_LIBRARY_PATH", "")
        env["LLG_FACTS_OUT"] = tmp
        env["LLG_FACTS_CRATES"] = "llgfix"
        env["RUSTFLAGS"] = "-Zmir-opt-level=0 -Awarnings -C overflow-checks=on"
        env["RUSTC_WORKSPACE_WRAPPER"] = extract.DRIVER
        tgt = os.path.join(extract.CACHE, "target-fixtures")
        shutil.rmtree(tgt, ignore_errors=True)
        env["CARGO_TARGET_DIR"] = tgt
        r = subprocess.run(["cargo", "+nightly", "check", "--offline"], cwd=FIX, env=env, capture_output=True, text=True)
        shutil.rmtree(tgt, ignore_errors=True)
        if r.returncode != 0 or not glob.glob(os.path.join(tmp, "llgfix-*.jsonl")):
            shutil.rmtree(tmp, ignore_errors=True)
            raise RuntimeError("fixture extraction failed: " + r.stderr[-2000:])
        open(os.path.join(tmp, "DONE"), "w").write("ok\n")
        shutil.rmtree(out, ignore_errors=True)
        os.rename(tmp, out)
        return out
    finally:
        fcntl.flock(lock, fcntl.LOCK_UN)
        lock.close()


def run():
    """returns a list of failed expectations (empty = all rule kinds behave)"""
    P = F.Program(fixture_facts())
    fails = []

    def expect(cond, what):
        if not cond:
            fails.append(what)

    def pushes(b):
        return [bi for bi, (w, m, r) in P.block_effects(b).items() if any(x[0] == (S, "v") and x[1].endswith("::push") for x in m)]

    flag = L.is_field_read(S, "flag")
    b = P.bodies[S + "::shrink"]
    w, m, r = P.own_effects(b)
    expect(any(x[0] == (S, "v") and L.is_shrinker(x[1]) for x in m), "effects: &mut field passed to a shrinking callee is seen")
    b = P.bodies[S + "::guarded"]
    g = L.guard_edges(b, flag, True)
    expect(g and not L.dominated_by_cut(b, pushes(b), g), "guard dominance: `if self.flag { push }` is guarded")
    b = P.bodies[S + "::unguarded"]
    g = L.guard_edges(b, flag, True)
    expect(bool(pushes(b)) and (not g or L.dominated_by_cut(b, pushes(b), g)), "guard dominance: an unguarded push is reported")
    b = P.bodies[S + "::and_guard"]
    g = L.guard_edges(b, flag, True)
    expect(g and not L.dominated_by_cut(b, pushes(b), g), "guard dominance through a materialised `a && flag`")
    b = P.bodies[S + "::ip_guard"]
    g0 = L._guard_edges_local(b, [(flag, True)])
    gi = L.guard_edges(b, flag, True)
    expect((not g0 or L.dominated_by_cut(b, pushes(b), g0)) and gi and not L.dominated_by_cut(b, pushes(b), gi),
           "interprocedural guard: a check moved into a helper is found by the (interprocedural) guard analysis only")
    b = P.bodies[S + "::try_guard"]
    g = L.guard_edges(b, L.is_call_to(S + "::rec_param"), True)
    expect(g and not L.dominated_by_cut(b, pushes(b), g), "guard dominance through `?` (Try::branch Continue arm)")
    for fn, bad in (("paired", False), ("unpaired", True)):
        b = P.bodies[S + "::" + fn]
        r_ = L.must_pass(b, b.call_blocks(S + "::open"), b.call_blocks(S + "::close"))
        expect(bool(r_) == bad, "must-pass-through: %s is %s" % (fn, "reported" if bad else "accepted"))
    from .props import c20
    sccs = P.sccs()
    by = {m_: c for c in sccs for m_ in c}
    expect(S + "::rec" in by and S + "::rec_param" in by and S + "::rec_counter" in by, "SCCs: three recursive fixtures are cyclic")
    for fn, want in (("rec", None), ("rec_param", "parameter"), ("rec_counter", "counter")):
        comp = set(by.get(S + "::" + fn, []))
        g = c20.is_depth_guard(P, P.bodies[S + "::" + fn], comp) if comp else None
        expect((g[0] if g else None) == want, "depth-guard idiom: %s -> %s (got %s)" % (fn, want, g))
    # transparent helpers (rules/inline.py): functions missing from rules/known_fns.txt are spliced into their callers
    expect(not any("inl_helper" in i for i in P.bodies) and sum(1 for h in P.hidden if "inl_helper" in h) == 3, "transparent helpers are hidden from iteration (%s)" % sorted(P.hidden))
    b = P.bodies[S + "::inl_caller"]
    expect(bool(pushes(b)), "spliced helper: the push inside inl_helper_push is a site of inl_caller")
    g = L.guard_edges(b, flag, True)
    expect(bool(g) and bool(pushes(b)) and not L.dominated_by_cut(b, pushes(b), g),
           "spliced helper: the push is dominated by the flag test made inside the `?`-helper")
    g2 = L.guard_edges(b, lambda e: e[0] == "bin" and e[1] == "Gt" and L.is_field_read(S, "n")(e[3]) and e[2] == ("place", [2]), False)
    expect(bool(g2), "spliced helper: the helper's parameter chases to the caller's argument (n > self.n with n = param 2)")
    b = P.bodies[S + "::inl_caller_unguarded"]
    g = L.guard_edges(b, flag, True)
    expect(bool(pushes(b)) and (not g or L.dominated_by_cut(b, pushes(b), g)), "spliced helper: an unguarded spliced push is reported")
    w, m, r = P.own_effects(b)
    expect(any(x[0] == (S, "v") and x[1].endswith("::push") for x in m), "spliced helper: effects are attributed to the caller")
    sccs = P.sccs()
    by = {m_: c for c in sccs for m_ in c}
    comp = set(by.get(S + "::inl_rec", []))
    g = c20.is_depth_guard(P, P.bodies[S + "::inl_rec"], comp) if comp else None
    expect(bool(comp) and (g[0] if g else None) == "counter", "spliced closure-taking guard helper: inl_rec is a depth guard (got %s, comp %s)" % (g, sorted(comp)))
    b = P.bodies[S + "::unk_closure_guarded"]
    g = L.guard_edges(b, flag, True)
    ps = b.call_blocks(lambda d: d.endswith("Vec::<T, A>::push"))
    expect(bool(ps) and bool(g) and not L.dominated_by_cut(b, ps, g) and not any("unk_closure_guarded::{closure" in i for i in P.bodies),
           "unknown closure: its push is projected onto the creating block (guarded there) and the closure is hidden")
    a = P.adts.get(S)
    expect(a is not None and [f["name"] for f in a["variants"][0]["fields"]] == ["v", "flag", "n", "depth"], "ADT facts: struct fields")
    expect(a is not None and a.get("auto", {}).get("send") is True, "auto-trait facts: S: Send")
    return fails
