"""Generic rule kinds (repository-agnostic). The repository-specific rule tables live in
rules/props/cNN.py."""
from . import facts as F


# ------------------------------------------------------------------ leaf predicates for guards
def is_field_read(adt, field):
    """leaf predicate: expression is a read of <adt>.<field> (any base)"""

    def pred(e):
        if e[0] in ("place", "ref"):
            fs = F.place_fields(e[1])
            return bool(fs) and fs[-1] == (adt, field)
        return False

    return pred


def is_call_to(*names, suffix=False):
    def pred(e):
        if e[0] != "call":
            return False
        if suffix:
            return any(e[1].endswith(n) for n in names)
        return e[1] in names

    return pred


def strip_wrappers(e):
    """peel value-preserving wrappers: casts"""
    for _ in range(8):
        if e[0] == "cast":
            e = e[1]
            continue
        break
    return e


def strip_views(e):
    """peel casts and whole-value view calls (deref/as_ref/as_slice/...): `Deref::deref(&self.v)` -> `&self.v`"""
    for _ in range(8):
        if e[0] == "cast":
            e = e[1]
            continue
        if e[0] == "call" and e[2] and any(e[1].endswith(v) for v in VIEW_CALLS):
            e = e[2][0]
            continue
        if e[0] == "deref":
            e = e[1]
            continue
        break
    return e


def promoted_value(prog, body, e):
    """for `&*_k` / `*_k` where `_k = const <fn>::promoted[N]` (a reference to a compile-time constant such as `&Some(0)`):
    the expression of the promoted value; else None"""
    import re as _re
    if e[0] not in ("ref", "place") or not e[1]:
        return None
    ds = body.defs().get(e[1][0], [])
    if len(ds) != 1 or ds[0][2] != "assign" or ds[0][3]["rv"] != "use":
        return None
    k = str(ds[0][3]["o"].get("k", ""))
    m = _re.match(r"^(.*)::promoted\[(\d+)\]$", k)
    if not m:
        return None
    pb = prog.any_body("%s::{promoted#%s}" % (m.group(1), m.group(2)))
    if pb is None:
        return None
    # the promoted body returns a reference to its local 1 (or the value itself)
    for bi, si, st in pb.statements(live_only=False):
        if st["s"] == "assign" and st["p"] == [1]:
            return pb.expr_rvalue(st["r"])
    return None


def upvar_source(prog, cb, e):
    """for an expression of closure body `cb` that is rooted in a captured variable (place `(*_1).k ...`), the
    expression of the captured operand in the function that creates the closure (a `&self.field` capture gives
    ('ref', [.., field])); None if e is not an upvar or the creation site is not unique"""
    if cb.kind != "closure" or e[0] not in ("place", "ref") or len(e[1]) < 2:
        return None
    pl = e[1]
    if pl[0] != 1:
        return None
    k = None
    for x in pl[1:3]:
        if isinstance(x, dict) and "up" in x:
            k = x["f"]
    if k is None:
        return None
    parent = prog.any_body(cb.parent) if cb.parent else None
    # nested closures: the creating body is the lexical parent closure, whose id prefixes cb.id
    cands = [parent] if parent is not None else []
    pid = cb.id.rsplit("::{closure#", 1)[0]
    if prog.any_body(pid) is not None and prog.any_body(pid) not in cands:
        cands.insert(0, prog.any_body(pid))
    for pb in cands:
        sites = []
        for bi, si, st in pb.statements():
            if st["s"] == "assign" and st["r"]["rv"] == "agg" and isinstance(st["r"]["kind"], dict) and st["r"]["kind"].get("closure") == cb.id:
                sites.append(st["r"]["ops"])
        if len(sites) == 1 and k < len(sites[0]):
            return pb.expr(sites[0][k])
    return None


# ------------------------------------------------------------------ guard edges
def guard_edges(body, leaf_pred, truth=True):
    """CFG edges on which `leaf_pred` holds with truth value `truth`."""
    return guard_edges_multi(body, [(leaf_pred, truth)])


def guard_edges_multi(body, specs, extra_edges=()):
    """CFG edges on which at least one of the (leaf_pred, truth) specs is known to hold — interprocedural (see
    guard_edges_ip) whenever the body belongs to a Program, so that moving a check into a helper does not hide it."""
    prog = getattr(body, "prog", None)
    if prog is not None:
        return guard_edges_ip(prog, body, specs, extra_edges=extra_edges)
    return _guard_edges_local(body, specs, extra_edges)


def _guard_edges_local(body, specs, extra_edges=()):
    """CFG edges on which at least one of the (leaf_pred, truth) specs is known to hold.
    Handles negation wrappers, `Try::branch` (Continue arm = success when truth=True), and
    booleans materialised by `&&` / `||` (a bool local assigned in several blocks and switched
    on later): the edge L==v counts if every definition that can give L the value v either is a
    spec leaf with the right polarity or sits in a block already dominated by found edges."""
    out = list(extra_edges)   # edges the caller has established by other means (e.g. discriminant tests)
    pending = []
    for bi, e, targets, otherwise in body.switch_edges():
        got = False
        for leaf_pred, truth in specs:
            def want(leaf, _p=leaf_pred, _t=truth):
                return _t if _p(strip_wrappers(leaf)) else None

            r = F.bool_edges(body, bi, e, targets, otherwise, want)
            if r:
                out.extend(r)
                got = True
                continue
            # discriminant of Try::branch(guard(..)): 0 = Continue (success), 1 = Break
            if e[0] == "discr":
                inner = e[1]
                if inner[0] == "call" and inner[1].endswith("::branch") and inner[2]:
                    g = strip_wrappers(inner[2][0])
                    if leaf_pred(g):
                        got = True
                        for v, tb in targets:
                            if (v == 0) == truth:
                                out.append((bi, tb))
                        if not any(v == 0 for v, _ in targets) and truth:
                            out.append((bi, otherwise))
                        elif not any(v == 1 for v, _ in targets) and not truth:
                            out.append((bi, otherwise))
        if not got:
            pending.append((bi, e, targets, otherwise))
    # materialised booleans
    changed = True
    while changed:
        changed = False
        for item in list(pending):
            bi, e, targets, otherwise = item
            cur, pol = F.peel_polarity(e)
            if cur[0] != "local":
                continue
            l = cur[1]
            if body.local_ty(l) != "bool":
                continue
            defs = body.defs().get(l, [])
            if len(defs) < 2:
                continue
            tt, ft = F.bool_targets(targets, otherwise)
            reach = body.reachable(0, cut_edges=out)
            for val in (True, False):
                ok = True
                any_def = False
                for (dbi, si, kind, payload) in defs:
                    if dbi not in body.live_blocks():
                        continue
                    if kind == "assign" and payload["rv"] == "use" and "iv" in payload["o"]:
                        if bool(int(payload["o"]["iv"])) != val:
                            continue  # cannot produce `val`
                        any_def = True
                        if dbi in reach:
                            ok = False
                        continue
                    any_def = True
                    de = body.expr_rvalue(payload) if kind == "assign" else ("call", payload["f"].get("def", "?"), [body.expr(a) for a in payload["args"]], dbi)
                    dcur, dpol = F.peel_polarity(de)
                    matched = False
                    for leaf_pred, truth in specs:
                        if leaf_pred(strip_wrappers(dcur)) and ((val == dpol) == truth):
                            matched = True
                    if not matched and dbi in reach:
                        ok = False
                if ok and any_def:
                    # L == val on the switch edge; account for negation wrappers of the switch operand
                    want_true_edge = (val == pol)
                    for t in (tt if want_true_edge else ft):
                        if (bi, t) not in out:
                            out.append((bi, t))
                            changed = True
                    if item in pending:
                        pending.remove(item)
    return out


def value_of(body, e):
    """for a reference to a plain local, the expression that defines the local's value"""
    for _ in range(5):
        if e[0] in ("ref", "place") and len(e[1]) == 1:
            n = body.expr_place([e[1][0]])
            if n == e or n[0] == "local":
                return n
            e = n
            continue
        break
    return e


def named_source(body, operand, depth=8):
    """name of the user variable an operand moves/copies from (through unnamed temporaries)"""
    p = F.op_place(operand)
    for _ in range(depth):
        if p is None:
            return None
        l = p[0]
        n = body.locals[l].get("n")
        if n:
            return n
        ds = body.defs().get(l, [])
        if len(ds) == 1 and ds[0][2] == "assign" and ds[0][3]["rv"] == "use":
            p = F.op_place(ds[0][3]["o"])
            continue
        if len(ds) == 1 and ds[0][2] == "assign" and ds[0][3]["rv"] == "ref":
            p = ds[0][3]["p"]
            continue
        return None
    return None


def role(body, o, depth=8):
    """name-independent description of where an operand's value comes from: 'param:N', 'call:f(args)', 'const:v',
    '&x', 'x.field', through moves/copies of single-definition locals (user variable names are ignored)"""
    if "fn" in o or "closure" in o:
        return "fn"
    if "k" in o:
        return "const:%s" % (o.get("iv", o.get("str", o.get("k"))))
    return role_place(body, F.op_place(o), depth)


def role_place(body, p, depth=8):
    if p is None or depth <= 0:
        return "?"
    l = p[0]
    suffix = ""
    for e in p[1:]:
        if e == "*":
            suffix += ".*"
        elif isinstance(e, dict) and "n" in e:
            suffix += "." + e["n"]
        elif isinstance(e, dict) and "f" in e:
            suffix += ".%d" % e["f"]
        elif isinstance(e, dict) and "dc" in e:
            suffix += " as " + e["dc"]
        else:
            suffix += "[]"
    if 1 <= l <= body.argc:
        return "param:%d%s" % (l, suffix)
    ds = body.defs().get(l, [])
    if len(ds) != 1:
        return "local(%d defs)%s" % (len(ds), suffix)
    bi, si, kind, payload = ds[0]
    if kind == "call":
        d = payload["f"].get("def", "?")
        name = d.rsplit("::", 1)[-1]
        return "call:%s(%s)%s" % (name, ",".join(role(body, a, depth - 1) for a in payload["args"]), suffix)
    if kind != "assign":
        return "local%s" % suffix
    r = payload
    if r["rv"] == "use":
        return role(body, r["o"], depth - 1) + suffix
    if r["rv"] in ("ref", "rawptr"):
        return "&" + role_place(body, r["p"], depth - 1) + suffix
    if r["rv"] == "cast":
        return role(body, r["o"], depth - 1) + suffix
    if r["rv"] == "bin":
        return "(%s %s %s)%s" % (role(body, r["a"], depth - 1), r["op"].replace("WithOverflow", ""), role(body, r["b"], depth - 1), suffix)
    if r["rv"] == "agg":
        # field N of a tuple / array temporary built by one aggregate (format_args!, destructuring): the N-th operand
        if r.get("kind") in ("tuple", "array") and len(p) >= 2 and isinstance(p[1], dict) and set(p[1].keys()) == {"f"} and p[1]["f"] < len(r["ops"]):
            inner = role(body, r["ops"][p[1]["f"]], depth - 1)
            rest = ""
            for e in p[2:]:
                rest += ".*" if e == "*" else ("." + e["n"] if isinstance(e, dict) and "n" in e else (".%d" % e["f"] if isinstance(e, dict) and "f" in e else "[]"))
            if rest.startswith(".*") and inner.startswith("&"):
                return inner[1:] + rest[2:]
            return inner + rest
        return "agg" + suffix
    return r["rv"] + suffix


VIEW_CALLS = ("::deref", "::deref_mut", "::as_ref", "::as_mut", "::as_slice", "::as_mut_slice", "::borrow", "::as_bytes", "::as_str")


def root_local(body, e, depth=10, any_call=False):
    """the local an expression is a whole-value view of (through refs, derefs, casts and
    view calls such as Deref::deref / as_slice taking it as first argument)"""
    for _ in range(depth):
        if e[0] in ("ref", "place"):
            l = e[1][0]
            ds = body.defs().get(l, [])
            if body.locals[l].get("n") or l <= body.argc or len(ds) != 1:
                return l
            inner = body.expr_place([l])
            if inner[0] in ("local",) or inner == e:
                return l
            e = inner
            continue
        if e[0] == "local":
            return e[1]
        if e[0] == "call" and e[2] and (any_call or e[1].endswith(VIEW_CALLS)):
            e = e[2][0]
            continue
        if e[0] == "cast":
            e = e[1]
            continue
        return None
    return None


def edges_of_switch_on(body, leaf_pred):
    """all (block, value, target) of switches whose (un-negated) leaf satisfies leaf_pred; value is
    the truth value of the leaf on that edge"""
    out = []
    for tv in (True, False):
        for (bi, t) in guard_edges(body, leaf_pred, tv):
            out.append((bi, tv, t))
    return out


def dominated_by_cut(body, sites, cut_edges, start=0):
    """the sites still reachable from `start` without crossing one of cut_edges (empty list = dominated)"""
    reach = body.reachable(start, cut_edges=cut_edges)
    return [s for s in sites if s in reach]  # the offending (still reachable) sites


def must_pass(body, from_blocks, through_blocks, targets=None, cut_edges=()):
    """every path from each block in from_blocks to a normal return (or `targets`) passes through a
    block in through_blocks (paths crossing cut_edges are ignored); returns offending from-blocks"""
    targets = set(targets if targets is not None else body.return_blocks())
    bad = []
    through = set(through_blocks)
    cut = set(cut_edges)
    for fb in from_blocks:
        if fb in through:
            continue
        seen = set()
        stack = [s for s in body.succs(fb) if s not in through and (fb, s) not in cut]
        hit = False
        while stack:
            u = stack.pop()
            if u in seen:
                continue
            seen.add(u)
            if u in targets:
                hit = True
                break
            for v in body.succs(u):
                if v not in through and v not in seen and (u, v) not in cut:
                    stack.append(v)
        if hit:
            bad.append(fb)
    return bad


def failure_edges_of_call(body, call_block):
    """CFG edges taken when the Result/Option returned by the call in call_block is Err/None under
    `?` (Break arm of Try::branch on that value)"""
    def pred(e, cb=call_block):
        return e[0] == "call" and len(e) > 3 and e[3] == cb
    return guard_edges(body, pred, False)


def blocks_only_via_edges(body, edges):
    """blocks reachable from entry only by crossing one of `edges`"""
    live = body.live_blocks()
    without = body.reachable(0, cut_edges=edges)
    return live - without


# ------------------------------------------------------------------ mode split on a boolean flag
def both_reach_return(body, bi):
    """a switch is a behavioural branch (not an assertion) iff every successor can reach a return"""
    rets = set(body.return_blocks())
    for s in body.succs(bi):
        if not (body.reachable(s) & rets):
            return False
    return True


def flag_regions(body, adt, field):
    """(true_only_blocks, false_only_blocks) of a boolean field test; assertion-style tests
    (one arm panics) are not mode branches and are ignored"""
    pred = is_field_read(adt, field)
    t_edges = [e for e in guard_edges(body, pred, True) if both_reach_return(body, e[0])]
    f_edges = [e for e in guard_edges(body, pred, False) if both_reach_return(body, e[0])]
    t_only = blocks_only_via_edges(body, t_edges) if t_edges else set()
    f_only = blocks_only_via_edges(body, f_edges) if f_edges else set()
    return t_only, f_only


def mode_split(prog, adt, field):
    """body id -> (true_only, false_only) for bodies that test the flag"""
    out = {}
    for b in prog.bodies.values():
        if not prog._is_code(b):
            continue
        # cheap pre-filter: body reads the flag
        reads = set()
        for bi, (w, m, r) in prog.block_effects(b).items():
            reads |= r
        if (adt, field) not in reads:
            continue
        t, f = flag_regions(b, adt, field)
        if t or f:
            out[b.id] = (t, f)
    return out


# ------------------------------------------------------------------ effects classification
SHRINKERS = ("truncate", "clear", "pop", "remove", "drain", "retain", "swap_remove", "split_off", "take")


def callee_last(d):
    return d.rsplit("::", 1)[-1]


def is_shrinker(callee):
    return callee_last(callee) in SHRINKERS


def fields_written(eff, adt_prefixes):
    """merge writes and mutcalls into {(adt, field): (how, where)} for adts with given prefixes"""
    W = {}
    for (a, f), src in eff["writes"].items():
        if a.startswith(adt_prefixes):
            W.setdefault((a, f), ("assign", src))
    for ((a, f), callee), src in eff["mutcalls"].items():
        if a.startswith(adt_prefixes):
            W.setdefault((a, f), ("&mut -> " + callee, src))
    return W


# ------------------------------------------------------------------ latch
def assignments_to(prog, adt, field):
    """all (body, block, rvalue-expr) assigning <adt>.<field> directly"""
    out = []
    for b in prog.bodies.values():
        if not prog._is_code(b):
            continue
        for bi, si, st in b.statements():
            if st["s"] != "assign":
                continue
            fs = F.place_fields(st["p"])
            if fs and fs[-1] == (adt, field):
                out.append((b, bi, st["r"]))
    return out


def struct_inits(prog, adt, include_derived=False):
    """all (body, block, {field: operand}) aggregate constructions of adt (derive-generated
    impls such as Clone are skipped)"""
    out = []
    for b in prog.bodies.values():
        if not prog._is_code(b):
            continue
        if b.rec.get("derived") and not include_derived:
            continue
        for bi, si, st in b.statements():
            if st["s"] != "assign":
                continue
            r = st["r"]
            if r["rv"] == "agg" and isinstance(r["kind"], dict) and r["kind"].get("adt") == adt:
                out.append((b, bi, dict(zip(r["kind"]["fields"], r["ops"])), r["kind"].get("variant")))
    return out


# ------------------------------------------------------------------ interprocedural guards
def _success_blocks(body):
    """blocks of `body` that produce a success value (true / Some / Ok) into the return place"""
    out = []
    for bi, si, st in body.statements():
        if st["s"] == "assign" and st["p"] == [0]:
            r = st["r"]
            if r["rv"] == "use" and r["o"].get("iv") == "1" and r["o"].get("ty") == "bool":
                out.append(bi)
            elif r["rv"] == "agg" and isinstance(r["kind"], dict) and r["kind"].get("variant") in ("Some", "Ok"):
                out.append(bi)
            elif r["rv"] == "use" and F.op_place(r["o"]) is not None:
                out.append(bi)  # moves a computed value: conservatively a success
    for bi, t in body.calls():
        if t["dest"] == [0]:
            out.append(bi)
    return out


def _returns_guard_value(body, specs):
    """the body's return value *is* one of the guards (e.g. closure `|r| r.condition.is_true()`)"""
    ds = body.defs().get(0, [])
    if len(ds) != 1:
        return False
    bi, si, kind, payload = ds[0]
    if kind == "call":
        e = ("call", payload["f"].get("def", "?"), [body.expr(a) for a in payload["args"]], bi)
    elif kind == "assign":
        e = body.expr_rvalue(payload)
    else:
        return False
    cur, pol = F.peel_polarity(e)
    return any(p(strip_wrappers(cur)) and pol == t for p, t in specs)


def _guard_value_polarity(body, pred):
    """True / False if the body's return value is exactly the guard `pred` / its negation; None otherwise"""
    ds = body.defs().get(0, [])
    if len(ds) != 1:
        return None
    bi, si, kind, payload = ds[0]
    if kind == "call":
        e = ("call", payload["f"].get("def", "?"), [body.expr(a) for a in payload["args"]], bi)
    elif kind == "assign":
        e = body.expr_rvalue(payload)
    else:
        return None
    cur, pol = F.peel_polarity(e)
    return pol if pred(strip_wrappers(cur)) else None


def callee_ensures(prog, h, specs, depth=2):
    """every success return (true/Some/Ok) of function h is dominated by one of the guards"""
    hb = prog.bodies.get(h) or getattr(prog, "hidden", {}).get(h)
    if hb is None or depth < 0:
        return False
    if _returns_guard_value(hb, specs):
        return True
    succ = _success_blocks(hb)
    if not succ:
        return False
    edges = guard_edges_ip(prog, hb, specs, depth - 1)
    if not edges:
        return False
    return not dominated_by_cut(hb, succ, edges)


def _expr_ensures(prog, body, e, specs, depth):
    """a success value (Some/Ok/true) of expression e implies one of the guards"""
    e = strip_wrappers(e)
    if e[0] == "deref":
        e = e[1]
    if e[0] != "call":
        return False
    d = e[1]
    if d in prog.bodies or d in getattr(prog, "hidden", {}):
        return callee_ensures(prog, d, specs, depth)
    last = d.rsplit("::", 1)[-1]
    if last in ("filter", "and_then", "take_if") and "option::Option" in d and len(e[2]) >= 2:
        if _expr_ensures(prog, body, e[2][0], specs, depth):
            return True
        for c in _closures_in(e[2][1]):
            if callee_ensures(prog, c, specs, depth):
                return True
        return False
    if last in ("as_ref", "as_deref", "copied", "cloned", "as_mut", "map", "ok", "is_some", "is_ok") and e[2]:
        return _expr_ensures(prog, body, e[2][0], specs, depth)
    return False


def _closures_in(e, depth=0):
    out = []
    if depth > 5 or not isinstance(e, tuple):
        return out
    if e[0] == "closure":
        out.append(e[1])
    elif e[0] == "agg":
        if isinstance(e[1], dict) and "closure" in e[1]:
            out.append(e[1]["closure"])
        for x in e[2]:
            out += _closures_in(x, depth + 1)
    elif e[0] in ("call", "callop"):
        for x in e[2]:
            out += _closures_in(x, depth + 1)
    elif e[0] in ("cast", "deref"):
        out += _closures_in(e[1], depth + 1)
    return out


def guard_edges_ip(prog, body, specs, depth=2, extra_edges=()):
    """guard_edges_multi plus: an edge on which a helper call returned true/Some/Ok counts when
    every success return of the helper (or of the closure given to Option::filter) is itself
    dominated by the guard — so moving a check into a helper does not hide it"""
    out = list(_guard_edges_local(body, specs, extra_edges))
    if depth < 0:
        return out
    for bi, e, targets, otherwise in body.switch_edges():
        cur, pol = F.peel_polarity(e)
        succ_targets = None
        if cur[0] == "discr":
            inner = strip_wrappers(cur[1])
            if inner[0] == "call" and inner[1].endswith("::branch") and inner[2]:
                # Try::branch: 0 = Continue
                if _expr_ensures(prog, body, inner[2][0], specs, depth):
                    succ_targets = [t for v, t in targets if v == 0] or [otherwise]
            elif _expr_ensures(prog, body, inner, specs, depth):
                # Option: Some == 1 ; Result: Ok == 0. Decide by the callee's return type.
                is_result = False
                ie = inner[1] if inner[0] == "deref" else inner
                if ie[0] == "call":
                    hb = prog.bodies.get(ie[1]) or getattr(prog, "hidden", {}).get(ie[1])
                    if hb is not None:
                        is_result = hb.local_ty(0).startswith("core::result::Result")
                want = 0 if is_result else 1
                succ_targets = [t for v, t in targets if v == want]
                if not succ_targets and not any(v == want for v, _ in targets):
                    succ_targets = [otherwise]
        elif cur[0] == "call" and _expr_ensures(prog, body, cur, specs, depth):
            tt, ft = F.bool_targets(targets, otherwise)
            succ_targets = tt if pol else ft
        elif cur[0] == "call":
            # a helper that *is* the guard (`fn over_budget(&self) -> bool { a > b }`): its value decides the guard both ways
            hb = prog.bodies.get(cur[1]) or getattr(prog, "hidden", {}).get(cur[1])
            if hb is not None and hb.local_ty(0) == "bool":
                for p_, t_ in specs:
                    q = _guard_value_polarity(hb, p_)
                    if q is not None:
                        # call value v == (guard if q else !guard); we want guard == t_  ->  v == (t_ if q else not t_)
                        want_v = t_ if q else (not t_)
                        tt, ft = F.bool_targets(targets, otherwise)
                        succ_targets = (tt if want_v else ft) if pol else (ft if want_v else tt)
        if succ_targets:
            for t in succ_targets:
                if (bi, t) not in out:
                    out.append((bi, t))
    return out


# ------------------------------------------------------------------ functions that only compare two values
CMP_TRUTH = {"Lt": lambda c: c < 0, "Le": lambda c: c <= 0, "Gt": lambda c: c > 0, "Ge": lambda c: c >= 0, "Eq": lambda c: c == 0, "Ne": lambda c: c != 0,
             "lt": lambda c: c < 0, "le": lambda c: c <= 0, "gt": lambda c: c > 0, "ge": lambda c: c >= 0, "eq": lambda c: c == 0, "ne": lambda c: c != 0}


def ordering_walk(body, side, results, order, present):
    """Results reachable in `body` when the two tracked values X ('x') and Y ('y') are present as given by `present`
    ({'x': bool, 'y': bool}) and compare as `order` (-1: x<y, 0: x=y, 1: x>y, None: not both present).
    `side(expr)` classifies an expression as 'x', 'y' or None; `results` maps block -> result label.
    Switches on the discriminant of X / Y follow the presence, comparisons of X and Y (binary operators or PartialOrd /
    PartialEq method calls) follow the ordering, every other switch is explored on all successors."""
    sw = {bi: (e, targets, otherwise) for bi, e, targets, otherwise in body.switch_edges()}
    seen, out, dq = set(), set(), [0]
    while dq:
        u = dq.pop()
        if u in seen:
            continue
        seen.add(u)
        if u in results:
            out.add(results[u])
        nxt = body.succs(u)
        if u in sw:
            e, targets, otherwise = sw[u]
            cur, pol = F.peel_polarity(e)
            if cur[0] == "discr":
                sd = side(cur[1])
                if sd in present:
                    want = 1 if present[sd] else 0
                    tg = [tb for v, tb in targets if v == want]
                    nxt = tg if tg else [otherwise]
            elif order is not None:
                op, a, b = None, None, None
                if cur[0] == "bin" and cur[1] in CMP_TRUTH:
                    op, a, b = cur[1], cur[2], cur[3]
                elif cur[0] == "call" and len(cur[2]) == 2 and cur[1].rsplit("::", 1)[-1] in ("lt", "le", "gt", "ge", "eq", "ne"):
                    op, a, b = cur[1].rsplit("::", 1)[-1], cur[2][0], cur[2][1]
                if op is not None:
                    sa_, sb_ = side(a), side(b)
                    if {sa_, sb_} == {"x", "y"}:
                        c = order if sa_ == "x" else -order
                        val = CMP_TRUTH[op](c) == pol
                        tt, ft = F.bool_targets(targets, otherwise)
                        nxt = tt if val else ft
        dq.extend(nxt)
    return out
