"""Program model over the llg-facts output: bodies (MIR), CFG utilities, symbolic chase of
temporaries, call graph with class-hierarchy edges, field effects. Repository-agnostic."""
import glob
import json
import os
from collections import defaultdict, deque


# ------------------------------------------------------------------------------------ places
def place_local(p):
    return p[0]


def place_fields(p):
    """named fields along a place: [(adt, field)]"""
    return [(e["a"], e["n"]) for e in p[1:] if isinstance(e, dict) and "n" in e]


def place_is_local(p):
    return len(p) == 1


def place_str(body, p):
    s = body.local_name(p[0])
    for e in p[1:]:
        if e == "*":
            s = "(*%s)" % s
        elif isinstance(e, dict):
            if "n" in e:
                s += "." + e["n"]
            elif "up" in e:
                s += ".<up:%s>" % e["up"]
            elif "f" in e:
                s += ".%d" % e["f"]
            elif "i" in e:
                s += "[%s]" % body.local_name(e["i"])
            elif "dc" in e:
                s += " as %s" % e["dc"]
            elif "ci" in e:
                s += "[%d]" % e["ci"]
            else:
                s += "[..]"
        else:
            s += "?"
    return s


def op_place(o):
    if "c" in o:
        return o["c"]
    if "m" in o:
        return o["m"]
    return None


def op_const_int(o):
    """integer value of a constant operand (two's complement interpreted by type), else None"""
    if "iv" not in o:
        return None
    v = int(o["iv"])
    ty = o.get("ty", "")
    sz = o.get("sz", 0)
    if ty.startswith("i") and sz:
        bits = sz * 8
        if v >= 1 << (bits - 1):
            v -= 1 << bits
    return v


# ------------------------------------------------------------------------------------ body
class Body:
    def __init__(self, rec, prog=None):
        self.rec = rec
        self.prog = prog
        self.id = rec["id"]
        self.crate = rec["crate"]
        self.kind = rec["kind"]
        self.file = rec["file"]
        self.line = rec["line"]
        self.blocks = rec["blocks"]
        self.locals = rec["locals"]
        self.argc = rec["argc"]
        self.parent = rec.get("parent")
        self._succ = None
        self._pred = None
        self._defs = None
        self._constsw = None

    # ---- naming
    def local_name(self, l):
        n = self.locals[l].get("n") if l < len(self.locals) else None
        return n if n else "_%d" % l

    def local_ty(self, l):
        return self.locals[l]["ty"]

    def where(self, bi=None):
        if bi is None:
            return "%s:%d" % (self.file, self.line)
        t = self.blocks[bi]["term"]
        l = t.get("l")
        if l is None:
            for st in self.blocks[bi]["st"]:
                if "l" in st:
                    l = st["l"]
                    break
        return "%s:%s" % (self.file, l if l is not None else self.line)

    # ---- definitions of locals
    def defs(self):
        """local -> list of (block, stmt_index|'term', kind, payload)"""
        if self._defs is None:
            d = defaultdict(list)
            for bi, b in enumerate(self.blocks):
                for si, st in enumerate(b["st"]):
                    if st["s"] == "assign" and "inl" in st:
                        # result of a spliced (transparent) helper: symbolically still a call (rules/inline.py)
                        t_ = dict(st["inl"])
                        t_["_inl_src"] = st["r"]   # the real data flow: dest = use(move <callee return slot>)
                        d[st["p"][0]].append((bi, si, "call" if place_is_local(st["p"]) else "partial", t_))
                    elif st["s"] == "assign" and place_is_local(st["p"]):
                        d[st["p"][0]].append((bi, si, "assign", st["r"]))
                    elif st["s"] == "assign":
                        d[st["p"][0]].append((bi, si, "partial", st))
                t = b["term"]
                if t["t"] == "call" and place_is_local(t["dest"]):
                    d[t["dest"][0]].append((bi, "term", "call", t))
                elif t["t"] == "call":
                    d[t["dest"][0]].append((bi, "term", "partial", t))
            self._defs = d
        return self._defs

    # ---- CFG
    def _const_switch_target(self, bi):
        """if block bi ends in a switch on a constant (cfg!(..), const DEBUG), the only feasible
        successor; else None"""
        b = self.blocks[bi]
        t = b["term"]
        if t["t"] != "switch":
            return None
        o = t["o"]
        val = None
        if "iv" in o:
            val = int(o["iv"])
        else:
            p = op_place(o)
            if p is not None and place_is_local(p):
                # look backwards in the same block for `local = const`
                for st in reversed(b["st"]):
                    if st["s"] == "assign" and st["p"] == p:
                        r = st["r"]
                        if r["rv"] == "use" and "iv" in r["o"]:
                            val = int(r["o"]["iv"])
                        break
        if val is None:
            return None
        for v, tb in t["targets"]:
            if int(v) == val:
                return tb
        return t["otherwise"]

    def succs(self, bi):
        if self._succ is None:
            self._succ = []
            for i, b in enumerate(self.blocks):
                t = b["term"]
                k = t["t"]
                if k == "goto":
                    s = [t["to"]]
                elif k == "switch":
                    ct = self._const_switch_target(i)
                    if ct is not None:
                        s = [ct]
                    else:
                        s = []
                        for _, tb in t["targets"]:
                            if tb not in s:
                                s.append(tb)
                        if t["otherwise"] not in s:
                            # an `otherwise` that is an unreachable block is not a path
                            ob = self.blocks[t["otherwise"]]
                            if not (ob["term"]["t"] == "unreachable" and not ob["st"]):
                                s.append(t["otherwise"])
                elif k in ("drop", "assert"):
                    s = [t["to"]]
                elif k == "call":
                    s = [t["to"]] if t["to"] is not None else []
                else:
                    s = []
                self._succ.append(s)
        return self._succ[bi]

    def preds(self, bi):
        if self._pred is None:
            self._pred = [[] for _ in self.blocks]
            for i in range(len(self.blocks)):
                for s in self.succs(i):
                    self._pred[s].append(i)
        return self._pred[bi]

    def return_blocks(self):
        return [i for i, b in enumerate(self.blocks) if b["term"]["t"] == "return"]

    def reachable(self, start=0, cut_blocks=(), cut_edges=()):
        """blocks reachable from `start` on the unwind-free CFG without entering cut_blocks and
        without crossing cut_edges"""
        cut_blocks = set(cut_blocks)
        cut_edges = set(cut_edges)
        if start in cut_blocks:
            return set()
        seen = {start}
        dq = deque([start])
        while dq:
            u = dq.popleft()
            for v in self.succs(u):
                if v in seen or v in cut_blocks or (u, v) in cut_edges:
                    continue
                seen.add(v)
                dq.append(v)
        return seen

    def live_blocks(self):
        return self.reachable(0)

    def dominators(self):
        """immediate dominators (Cooper-Harvey-Kennedy) on the pruned, unwind-free CFG"""
        order = []
        seen = set()
        stack = [(0, iter(self.succs(0)))]
        seen.add(0)
        while stack:
            u, it = stack[-1]
            adv = False
            for v in it:
                if v not in seen:
                    seen.add(v)
                    stack.append((v, iter(self.succs(v))))
                    adv = True
                    break
            if not adv:
                order.append(u)
                stack.pop()
        rpo = list(reversed(order))
        idx = {b: i for i, b in enumerate(rpo)}
        idom = {0: 0}
        changed = True

        def inter(a, b):
            while a != b:
                while idx[a] > idx[b]:
                    a = idom[a]
                while idx[b] > idx[a]:
                    b = idom[b]
            return a

        while changed:
            changed = False
            for b in rpo[1:]:
                ps = [p for p in self.preds(b) if p in idom]
                if not ps:
                    continue
                n = ps[0]
                for p in ps[1:]:
                    n = inter(p, n)
                if idom.get(b) != n:
                    idom[b] = n
                    changed = True
        return idom

    def dominates(self, a, b, idom=None):
        idom = idom or self.dominators()
        if b not in idom:
            return False
        while True:
            if a == b:
                return True
            if b == 0 or idom[b] == b:
                return a == b
            b = idom[b]

    # ---- iteration helpers
    def calls(self, live_only=True):
        live = self.live_blocks() if live_only else None
        for bi, b in enumerate(self.blocks):
            if live is not None and bi not in live:
                continue
            t = b["term"]
            if t["t"] == "call":
                yield bi, t

    def callee(self, t):
        f = t["f"]
        return f.get("def")

    def call_blocks(self, pred):
        """blocks whose call terminator's resolved callee satisfies pred(def_path) (pred may be a
        string for equality or a callable)"""
        out = []
        for bi, t in self.calls():
            d = t["f"].get("def")
            if d is None:
                continue
            if (pred(d) if callable(pred) else d == pred):
                out.append(bi)
        return out

    def statements(self, live_only=True):
        live = self.live_blocks() if live_only else None
        for bi, b in enumerate(self.blocks):
            if live is not None and bi not in live:
                continue
            for si, st in enumerate(b["st"]):
                yield bi, si, st

    # ---- symbolic chase of temporaries
    def expr(self, o, depth=12, _seen=None):
        """Symbolic expression for an operand: chases single-definition locals.
        Forms: ('const', value, ty, raw) ('call', def, [args], block) ('place', place)
        ('un', op, e) ('bin', op, a, b) ('ref', place) ('cast', e, ty) ('discr', e)
        ('agg', kind, [es]) ('fn', def) ('closure', def) ('local', l)"""
        if "fn" in o:
            return ("fn", o["fn"])
        if "closure" in o:
            return ("closure", o["closure"])
        if "k" in o:
            v = op_const_int(o)
            if v is None and "str" in o:
                v = o["str"]
            elif v is None and o.get("ty") == "&str" and str(o.get("k", "")).startswith('"'):
                try:
                    import ast as _ast
                    v = _ast.literal_eval(o["k"])
                except Exception:
                    v = None
            return ("const", v, o.get("ty"), o["k"])
        p = op_place(o)
        return self.expr_place(p, depth, _seen)

    def expr_place(self, p, depth=12, _seen=None):
        if p is None:
            return ("unknown",)
        if not place_is_local(p):
            # field 0 of an overflow-checked arithmetic pair is the arithmetic result
            if len(p) == 2 and isinstance(p[1], dict) and p[1].get("f") == 0 and "n" not in p[1]:
                ds = self.defs().get(p[0], [])
                if len(ds) == 1 and ds[0][2] == "assign" and ds[0][3]["rv"] == "bin" and ds[0][3]["op"].endswith("WithOverflow"):
                    r = ds[0][3]
                    return ("bin", r["op"][: -len("WithOverflow")], self.expr(r["a"], depth - 1), self.expr(r["b"], depth - 1))
            # field i of a tuple temporary built by a single aggregate (assert_eq!, match on tuples)
            if len(p) >= 2 and isinstance(p[1], dict) and set(p[1].keys()) == {"f"}:
                ds = self.defs().get(p[0], [])
                if len(ds) == 1 and ds[0][2] == "assign" and ds[0][3]["rv"] == "agg" and ds[0][3]["kind"] == "tuple" and p[1]["f"] < len(ds[0][3]["ops"]):
                    inner = self.expr(ds[0][3]["ops"][p[1]["f"]], depth - 1)
                    rest = p[2:]
                    if not rest:
                        return inner
                    if inner[0] == "ref" and rest[0] == "*":
                        return ("place", inner[1] + rest[1:])
                    if inner[0] in ("place",):
                        return ("place", inner[1] + rest)
            # projection of a temp that points somewhere: resolve deref of single-def ref temps
            if len(p) >= 2 and p[1] == "*":
                base = self.expr_place([p[0]], depth - 1, _seen)
                if base[0] == "ref":
                    np_ = base[1] + p[2:]
                    # the referent may itself be a projection of a tuple temporary (`&(_2.0 as Some).0` in match guards)
                    if depth > 1 and np_[0] != p[0] and len(np_) >= 2 and isinstance(np_[1], dict) and set(np_[1].keys()) == {"f"}:
                        return self.expr_place(np_, depth - 1, _seen)
                    return ("place", np_)
                if base[0] in ("call", "callop") and len(p) == 2:
                    return ("deref", base)
                if base[0] == "place" and base[1] != [p[0]]:
                    return ("place", base[1] + p[1:])
            return ("place", p)
        l = p[0]
        if depth <= 0:
            return ("local", l)
        ds = self.defs().get(l, [])
        if l <= self.argc and l != 0:
            return ("place", p)
        if len(ds) != 1:
            return ("local", l)
        bi, si, kind, payload = ds[0]
        if kind == "call":
            t = payload
            f = t["f"]
            if "def" in f:
                return ("call", f["def"], [self.expr(a, depth - 1) for a in t["args"]], bi)
            return ("callop", self.expr(f["op"], depth - 1), [self.expr(a, depth - 1) for a in t["args"]], bi)
        if kind != "assign":
            return ("local", l)
        return self.expr_rvalue(payload, depth)

    def expr_rvalue(self, r, depth=12):
        rv = r["rv"]
        if rv == "use":
            return self.expr(r["o"], depth - 1)
        if rv == "un":
            return ("un", r["op"], self.expr(r["a"], depth - 1))
        if rv == "bin":
            return ("bin", r["op"], self.expr(r["a"], depth - 1), self.expr(r["b"], depth - 1))
        if rv == "ref" or rv == "rawptr":
            pl = r["p"]
            if len(pl) >= 2 and pl[1] == "*":
                base = self.expr_place([pl[0]], depth - 1)
                if base[0] == "ref":
                    return ("ref", base[1] + pl[2:])
                if base[0] == "place":
                    return ("ref", base[1] + pl[1:])
                if base[0] in ("call", "callop") and len(pl) == 2:
                    return base  # `&*f(..)` re-borrows the reference returned by f
            return ("ref", pl)
        if rv == "cast":
            return ("cast", self.expr(r["o"], depth - 1), r["ty"], r["kind"])
        if rv == "discr":
            return ("discr", self.expr_place(r["p"], depth - 1))
        if rv == "agg":
            return ("agg", r["kind"], [self.expr(x, depth - 1) for x in r["ops"]])
        if rv == "repeat":
            return ("repeat", self.expr(r["o"], depth - 1))
        return ("other", r.get("d", ""))

    # ---- branch conditions
    def switch_edges(self):
        """for each live switch block: (block, expr_of_discriminant, [(value:int, target)], otherwise)"""
        live = self.live_blocks()
        for bi in sorted(live):
            t = self.blocks[bi]["term"]
            if t["t"] == "switch" and self._const_switch_target(bi) is None:
                yield bi, self.expr(t["o"]), [(int(v), tb) for v, tb in t["targets"]], t["otherwise"]


def peel_polarity(e):
    """strip negation wrappers; returns (inner_expr, polarity)"""
    pol = True
    cur = e
    for _ in range(16):
        if cur[0] == "un" and cur[1] == "Not":
            pol = not pol
            cur = cur[2]
            continue
        if cur[0] == "call" and cur[1] in ("anyhow::__private::not", "<bool as core::ops::Not>::not"):
            pol = not pol
            cur = cur[2][0]
            continue
        if cur[0] == "bin" and cur[1] in ("Eq", "Ne") and cur[3][0] == "const" and cur[3][2] == "bool":
            same = bool(cur[3][1]) == (cur[1] == "Eq")
            if not same:
                pol = not pol
            cur = cur[2]
            continue
        break
    return cur, pol


def bool_targets(targets, otherwise):
    """(true_targets, false_targets) of a boolean switch"""
    true_targets = []
    false_targets = []
    for v, tb in targets:
        (false_targets if v == 0 else true_targets).append(tb)
    if all(v == 0 for v, _ in targets):
        true_targets.append(otherwise)
    else:
        false_targets.append(otherwise)
    return true_targets, false_targets


def bool_edges(body, bi, e, targets, otherwise, want):
    """Given a switch on expression e, return the list of CFG edges (bi, target) on which the
    *leaf* predicate satisfies `want(leaf_expr) -> True|False|None` as True, following
    negations (`!x`, `anyhow::__private::not`, `== false`) and Try/Option discriminants.
    `want` receives the innermost expression and returns the truth value it should have for
    the guard to count as passed, or None if this expression is not the guard."""
    pol = True
    cur = e
    for _ in range(16):
        if cur[0] == "un" and cur[1] == "Not":
            pol = not pol
            cur = cur[2]
            continue
        if cur[0] == "call" and cur[1] in ("anyhow::__private::not", "<bool as core::ops::Not>::not"):
            pol = not pol
            cur = cur[2][0]
            continue
        if cur[0] == "bin" and cur[1] in ("Eq", "Ne") and cur[3][0] == "const" and cur[3][2] == "bool":
            same = bool(cur[3][1]) == (cur[1] == "Eq")
            if not same:
                pol = not pol
            cur = cur[2]
            continue
        break
    w = want(cur)
    if w is None:
        return None
    # boolean switch: value 0 -> false edge; otherwise -> true edge
    true_targets = []
    false_targets = []
    for v, tb in targets:
        (false_targets if v == 0 else true_targets).append(tb)
    if all(v == 0 for v, _ in targets):
        true_targets.append(otherwise)
    else:
        false_targets.append(otherwise)
    want_true = (w == pol)
    tg = true_targets if want_true else false_targets
    return [(bi, t) for t in tg]


# ------------------------------------------------------------------------------------ program
class Program:
    def __init__(self, facts_dir, inline=True):
        self.dir = facts_dir
        self.bodies = {}
        self.adts = {}
        self.statics = {}
        self.crates = {}
        for f in sorted(glob.glob(os.path.join(facts_dir, "*.jsonl"))):
            with open(f) as fh:
                for line in fh:
                    r = json.loads(line)
                    k = r["rec"]
                    if k == "body":
                        self.bodies[r["id"]] = Body(r, self)
                    elif k == "adt":
                        self.adts[r["id"]] = r
                    elif k == "static":
                        self.statics[r["id"]] = r
                    elif k == "crate":
                        self.crates[r["crate"]] = r["bodies"]
        self._cg = None
        self._bc = {}
        self._be = {}
        self._impls = None
        self._closures_of = None
        self.hidden = {}
        self.inlined_into = {}
        if inline:
            self._splice_transparent()

    def _splice_transparent(self):
        """functions unknown to the rule tables (not in rules/known_fns.txt) are spliced into their callers"""
        from . import inline as I
        known = I.load_known()
        if known is None:
            return
        crates = set(x[len("#crate "):] for x in known if x.startswith("#crate "))
        T = {i for i, b in self.bodies.items()
             if b.kind in ("fn", "assoc_fn") and i not in known and b.crate in crates and not b.rec.get("impl_of")
             and not b.rec.get("no_mangle") and not str(b.rec.get("abi", "")).startswith("C")}
        # closures unknown to the rule tables whose lexical owner is a known function (new closures inside new helpers
        # travel with the helper)
        UC = {i for i, b in self.bodies.items() if b.kind == "closure" and i not in known and b.crate in crates}
        if not T and not UC:
            return
        raw = {i: b.rec for i, b in self.bodies.items()}
        changed = {}
        for i, rec in raw.items():
            if i in T or i in UC:
                continue
            new, inl = I.inline_record(rec, raw.get, lambda d: d in T)
            new, proj = I.project_closure_calls(new, raw.get, lambda c: c in UC)
            if inl or proj:
                changed[i] = new
                for h in inl:
                    self.inlined_into.setdefault(h, set()).add(i)
                for c in proj:
                    self.inlined_into.setdefault(c, set()).add(i)
        for i, rec in changed.items():
            self.bodies[i] = Body(rec, self)
        for c in UC:
            if c in self.inlined_into:
                self.hidden[c] = self.bodies.pop(c)
        if not T:
            return
        # a transparent function that is no longer referenced anywhere is hidden from iteration
        refs = set()
        for i, b in self.bodies.items():
            if i in T:
                continue
            for blk in b.blocks:
                t = blk["term"]
                if t["t"] == "call":
                    d = t["f"].get("def")
                    if d in T:
                        refs.add(d)
                    for a in t["args"]:
                        if a.get("fn") in T:
                            refs.add(a["fn"])
                for st in blk["st"]:
                    if st["s"] == "assign":
                        r = st["r"]
                        for o in ([r.get("o")] if isinstance(r.get("o"), dict) else []) + list(r.get("ops", [])):
                            if isinstance(o, dict) and o.get("fn") in T:
                                refs.add(o["fn"])
        # transparent helpers referenced only from other transparent helpers that are themselves spliced are covered
        for h in T:
            if h in self.inlined_into and h not in refs:
                self.hidden[h] = self.bodies.pop(h)

    def body(self, id):
        return self.bodies.get(id)

    def find(self, suffix):
        return [b for i, b in self.bodies.items() if i.endswith(suffix)]

    # ---- trait impl index for class hierarchy analysis
    def impls(self):
        if self._impls is None:
            m = defaultdict(list)
            for b in self.bodies.values():
                t = b.rec.get("impl_of")
                if t:
                    m[t].append(b.id)
            self._impls = m
        return self._impls

    def any_body(self, id):
        """a body by id, including spliced helpers / projected closures that are hidden from iteration"""
        return self.bodies.get(id) or self.hidden.get(id)

    def closures_of(self, fid, include_hidden=False):
        """closure bodies lexically nested (at any depth) in function fid"""
        if self._closures_of is None:
            m = defaultdict(list)
            for b in list(self.bodies.values()) + list(self.hidden.values()):
                if b.kind == "closure" and b.parent:
                    m[b.parent].append(b.id)
            self._closures_of = m
        out = list(self._closures_of.get(fid, []))
        b = self.bodies.get(fid)
        for h in (b.rec.get("inlined", []) if b is not None else []):
            out += self._closures_of.get(h, [])
        return [c for c in out if include_hidden or c not in self.hidden]

    def promoted_of(self, fid):
        ids = [fid] + (self.bodies[fid].rec.get("inlined", []) if fid in self.bodies else [])
        return [b for i, b in self.bodies.items() if any(i.startswith(x + "::{promoted#") for x in ids)]

    # ---- per-block call targets and effects
    def block_calls(self, b):
        """block -> set of callee ids of one body (CHA-expanded). Edges: resolved direct calls;
        virtual / unresolved trait-method calls -> every impl of that trait method in the
        analysed crates plus the method itself; a closure is called by the function that creates
        it (over-approximation: creation = call); fn items used as values likewise."""
        c = self._bc.get(b.id)
        if c is not None:
            return c
        impls = self.impls()
        out = {}

        def add_callee(bi, d):
            out.setdefault(bi, set()).add(d)
            if d in impls:
                out[bi].update(impls[d])

        def scan_op(bi, o):
            if "fn" in o:
                add_callee(bi, o["fn"])
            elif "closure" in o:
                out.setdefault(bi, set()).add(o["closure"])

        for bi in sorted(b.live_blocks()):
            blk = b.blocks[bi]
            for st in blk["st"]:
                if st["s"] != "assign":
                    continue
                r = st["r"]
                rv = r["rv"]
                if rv == "agg":
                    k = r["kind"]
                    if isinstance(k, dict) and "closure" in k:
                        out.setdefault(bi, set()).add(k["closure"])
                    for o in r["ops"]:
                        scan_op(bi, o)
                elif rv in ("use", "cast", "repeat"):
                    scan_op(bi, r["o"])
            t = blk["term"]
            if t["t"] == "call":
                f = t["f"]
                if "def" in f:
                    add_callee(bi, f["def"])
                else:
                    scan_op(bi, f["op"])
                for a in t["args"]:
                    scan_op(bi, a)
        self._bc[b.id] = out
        return out

    def block_effects(self, b):
        """block -> (writes, mutcalls, reads) of one body.
        writes: set of (adt, field) assigned (deepest named field of an assigned place, plus
                destinations of calls);
        mutcalls: set of ((adt, field), callee) where `&mut place.field` is passed to callee;
        reads: set of (adt, field) appearing in any operand / borrowed place."""
        c = self._be.get(b.id)
        if c is not None:
            return c
        out = {}
        mutref = {}  # local -> place it mutably borrows
        live = sorted(b.live_blocks())
        for bi in live:
            writes, mutcalls, reads = set(), set(), set()
            out[bi] = (writes, mutcalls, reads)
            blk = b.blocks[bi]
            for st in blk["st"]:
                if st["s"] == "setdiscr":
                    fs = place_fields(st["p"])
                    if fs:
                        writes.add(fs[-1])
                    continue
                if st["s"] != "assign":
                    continue
                fs = place_fields(st["p"])
                if fs:
                    writes.add(fs[-1])
                    for f in fs[:-1]:
                        reads.add(f)
                r = st["r"]
                rv = r["rv"]
                if rv in ("ref", "rawptr"):
                    pf = place_fields(r["p"])
                    if r.get("mut"):
                        if place_is_local(st["p"]):
                            mutref[st["p"][0]] = r["p"]
                    for f in pf:
                        reads.add(f)
                else:
                    for o in _rvalue_operands(r):
                        p = op_place(o)
                        if p:
                            for f in place_fields(p):
                                reads.add(f)
                    if rv == "discr":
                        for f in place_fields(r["p"]):
                            reads.add(f)
            t = blk["term"]
            if t["t"] == "call":
                fs = place_fields(t["dest"])
                if fs:
                    writes.add(fs[-1])
                for a in t["args"]:
                    p = op_place(a)
                    if p:
                        for f in place_fields(p):
                            reads.add(f)
            elif t["t"] == "switch":
                p = op_place(t["o"])
                if p:
                    for f in place_fields(p):
                        reads.add(f)

        # resolve &mut temps passed to calls (through moves / reborrows)
        def origin(l, depth=6):
            if depth == 0:
                return None
            if l in mutref:
                pl = mutref[l]
                if len(pl) >= 2 and pl[1] == "*" and not place_fields(pl):
                    return origin(pl[0], depth - 1)
                return pl
            ds = b.defs().get(l, [])
            if len(ds) == 1 and ds[0][2] == "assign" and ds[0][3]["rv"] == "use":
                p = op_place(ds[0][3]["o"])
                if p and place_is_local(p):
                    return origin(p[0], depth - 1)
            return None

        for bi in live:
            t = b.blocks[bi]["term"]
            if t["t"] != "call":
                continue
            d = t["f"].get("def", "<indirect>")
            for a in t["args"]:
                p = op_place(a)
                if p and place_is_local(p):
                    o = origin(p[0])
                    if o:
                        fs = place_fields(o)
                        if fs:
                            out[bi][1].add((fs[-1], d))
        self._be[b.id] = out
        return out

    def _is_code(self, b):
        return b.kind not in ("promoted", "const", "static")

    # ---- call graph
    def callgraph(self):
        """caller -> set(callee) over bodies of the analysed crates *and* external def paths"""
        if self._cg is not None:
            return self._cg
        cg = defaultdict(set)
        for b in self.bodies.values():
            if not self._is_code(b):
                continue
            cg[b.id]
            for s in self.block_calls(b).values():
                cg[b.id].update(s)
        self._cg = cg
        return cg

    def reachable_from(self, roots, stop=(), exclude=None):
        """bodies/def paths reachable from roots in the call graph, not expanding `stop`;
        exclude: body id -> set of blocks whose calls are ignored"""
        stop = set(stop)
        seen = set()
        dq = deque(r for r in roots)
        cg = self.callgraph()
        while dq:
            u = dq.popleft()
            if u in seen:
                continue
            seen.add(u)
            if u in stop:
                continue
            if exclude and u in exclude and u in self.bodies:
                succ = set()
                for bi, s in self.block_calls(self.bodies[u]).items():
                    if bi not in exclude[u]:
                        succ.update(s)
            else:
                succ = cg.get(u, ())
            for v in succ:
                if v not in seen:
                    dq.append(v)
        return seen

    def callers_of(self, target):
        cg = self.callgraph()
        return sorted(c for c, s in cg.items() if target in s)

    def call_path(self, src, dst, stop=()):
        """one shortest call path src -> dst (list of ids) or None"""
        cg = self.callgraph()
        stop = set(stop)
        prev = {src: None}
        dq = deque([src])
        while dq:
            u = dq.popleft()
            if u == dst:
                out = []
                while u is not None:
                    out.append(u)
                    u = prev[u]
                return list(reversed(out))
            if u in stop and u != src:
                continue
            for v in sorted(cg.get(u, ())):
                if v not in prev:
                    prev[v] = u
                    dq.append(v)
        return None

    # ---- effects
    def own_effects(self, b, exclude_blocks=()):
        writes, mutcalls, reads = set(), set(), set()
        for bi, (w, m, r) in self.block_effects(b).items():
            if bi in exclude_blocks:
                continue
            writes |= w
            mutcalls |= m
            reads |= r
        return writes, mutcalls, reads

    def transitive_effects(self, roots, stop=(), exclude=None):
        """union of own effects over everything reachable from roots; each effect maps to the
        first contributing function (for reporting). exclude: body id -> blocks ignored."""
        reach = self.reachable_from(roots, stop, exclude)
        writes, mutcalls, reads = {}, {}, {}
        stopset = set(stop)
        for f in sorted(reach):
            if f in stopset:
                continue  # not expanded and not summarised
            b = self.bodies.get(f)
            if b is None or not self._is_code(b):
                continue
            w, m, r = self.own_effects(b, (exclude or {}).get(f, ()))
            for x in w:
                writes.setdefault(x, f)
            for x in m:
                mutcalls.setdefault(x, f)
            for x in r:
                reads.setdefault(x, f)
        return dict(writes=writes, mutcalls=mutcalls, reads=reads, reach=reach)

    # ---- SCCs
    def sccs(self, nodes=None, drop_edges=(), drop_nodes=()):
        cg = self.callgraph()
        drop_edges = set(drop_edges)
        drop_nodes = set(drop_nodes)
        if nodes is None:
            nodes = [n for n in self.bodies if self.bodies[n].kind not in ("promoted", "const", "static")]
        nodes = [n for n in nodes if n not in drop_nodes]
        nodeset = set(nodes)
        index = {}
        low = {}
        onstack = set()
        stack = []
        out = []
        counter = [0]

        def succ(u):
            return [v for v in sorted(cg.get(u, ())) if v in nodeset and (u, v) not in drop_edges]

        for root in nodes:
            if root in index:
                continue
            work = [(root, iter(succ(root)))]
            index[root] = low[root] = counter[0]
            counter[0] += 1
            stack.append(root)
            onstack.add(root)
            while work:
                u, it = work[-1]
                adv = False
                for v in it:
                    if v not in index:
                        index[v] = low[v] = counter[0]
                        counter[0] += 1
                        stack.append(v)
                        onstack.add(v)
                        work.append((v, iter(succ(v))))
                        adv = True
                        break
                    elif v in onstack:
                        low[u] = min(low[u], index[v])
                if adv:
                    continue
                work.pop()
                if work:
                    p = work[-1][0]
                    low[p] = min(low[p], low[u])
                if low[u] == index[u]:
                    comp = []
                    while True:
                        w = stack.pop()
                        onstack.discard(w)
                        comp.append(w)
                        if w == u:
                            break
                    if len(comp) > 1 or (u, u) not in drop_edges and u in cg.get(u, ()):
                        out.append(sorted(comp))
        return out


def _rvalue_operands(r):
    rv = r["rv"]
    if rv in ("use", "repeat", "cast"):
        return [r["o"]]
    if rv == "un":
        return [r["a"]]
    if rv == "bin":
        return [r["a"], r["b"]]
    if rv == "agg":
        return r["ops"]
    return []


def fmt_expr(e, depth=0):
    if depth > 6:
        return "…"
    k = e[0]
    if k == "const":
        return str(e[3])
    if k == "call":
        return "%s(%s)" % (e[1].split("::")[-1] if not e[1].startswith("<") else e[1], ", ".join(fmt_expr(a, depth + 1) for a in e[2]))
    if k == "place" or k == "ref":
        fs = place_fields(e[1])
        s = ".".join(f[1] for f in fs) if fs else "_%d" % e[1][0]
        return ("&" if k == "ref" else "") + s
    if k == "un":
        return "%s(%s)" % (e[1], fmt_expr(e[2], depth + 1))
    if k == "bin":
        return "(%s %s %s)" % (fmt_expr(e[2], depth + 1), e[1], fmt_expr(e[3], depth + 1))
    if k == "cast":
        return "(%s as %s)" % (fmt_expr(e[1], depth + 1), e[2])
    if k == "discr":
        return "discr(%s)" % fmt_expr(e[1], depth + 1)
    if k == "local":
        return "_%d" % e[1]
    if k == "deref":
        return "*" + fmt_expr(e[1], depth + 1)
    return k
