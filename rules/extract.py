"""Fact extraction: run the llg-facts driver over /repo's *current working tree* and cache the
result keyed by a content hash of everything that can influence the build."""
import fcntl
import glob
import hashlib
import os
import shutil
import subprocess
import sys
import time

VERIF = os.path.dirname(os.path.dirname(os.path.abspath(__file__)))
REPO = os.environ.get("LLG_REPO", "/repo")
CACHE = os.path.join(VERIF, ".cache")
DRIVER_DIR = os.path.join(VERIF, "driver")
DRIVER = os.path.join(DRIVER_DIR, "target", "release", "llg-facts")

MEMBERS = ["parser", "toktrie", "toktrie_hf_tokenizers", "toktrie_tiktoken"]
CRATES = ["llguidance", "toktrie", "toktrie_hf_tokenizers", "toktrie_tiktoken"]

CONFIGS = {
    # name: (cargo package/feature args, crates that must produce a fact file)
    "default": (
        ["-p", "llguidance", "-p", "toktrie", "-p", "toktrie_hf_tokenizers", "-p", "toktrie_tiktoken"],
        CRATES,
    ),
    "minimal": (
        ["-p", "llguidance", "--no-default-features", "--features", "lark"],
        ["llguidance", "toktrie"],
    ),
}


def _env():
    env = dict(os.environ)
    env["CARGO_NET_OFFLINE"] = "true"
    return env


def sysroot_lib():
    out = subprocess.run(
        ["rustc", "+nightly", "--print", "sysroot"], capture_output=True, text=True, env=_env()
    )
    if out.returncode != 0:
        raise RuntimeError("nightly toolchain not available: " + out.stderr)
    return os.path.join(out.stdout.strip(), "lib")


def ensure_driver():
    if os.path.exists(DRIVER):
        src = os.path.join(DRIVER_DIR, "src", "main.rs")
        if os.path.getmtime(src) <= os.path.getmtime(DRIVER):
            return
    r = subprocess.run(
        ["cargo", "+nightly", "build", "--release", "--offline"],
        cwd=DRIVER_DIR,
        env=_env(),
        capture_output=True,
        text=True,
    )
    if r.returncode != 0 or not os.path.exists(DRIVER):
        sys.stderr.write(r.stdout + r.stderr)
        raise RuntimeError("cannot build llg-facts driver")


def repo_files(repo=None):
    repo = repo or REPO
    files = []
    for top in ["Cargo.toml", "Cargo.lock", "rust-toolchain.toml"]:
        p = os.path.join(repo, top)
        if os.path.exists(p):
            files.append(p)
    for m in MEMBERS:
        for root, dirs, fs in os.walk(os.path.join(repo, m)):
            dirs[:] = [d for d in dirs if d not in ("target", ".git")]
            for f in fs:
                if f.endswith((".rs", ".toml", ".h", ".json", ".lark")) or f == "build.rs":
                    files.append(os.path.join(root, f))
    return sorted(files)


def source_hash(repo=None):
    repo = repo or REPO
    h = hashlib.sha256()
    for p in repo_files(repo):
        h.update(os.path.relpath(p, repo).encode())
        h.update(b"\0")
        with open(p, "rb") as f:
            h.update(f.read())
        h.update(b"\0")
    # the driver is part of the key: a new driver re-extracts
    with open(os.path.join(DRIVER_DIR, "src", "main.rs"), "rb") as f:
        h.update(f.read())
    return h.hexdigest()[:20]


def _prune_cache(keep):
    """keep the cache small: at most 24 fact sets"""
    ents = []
    for d in glob.glob(os.path.join(CACHE, "facts-*")):
        ents.append((os.path.getmtime(d), d))
    ents.sort()
    for _, d in ents[:-24]:
        if d != keep:
            shutil.rmtree(d, ignore_errors=True)


def ensure_facts(config="default", repo=None, verbose=True):
    """returns (facts_dir, source_hash, extracted_now, seconds)"""
    repo = repo or REPO
    os.makedirs(CACHE, exist_ok=True)
    ensure_driver()
    sh = source_hash(repo)
    out = os.path.join(CACHE, "facts-%s-%s" % (sh, config))
    lock = open(os.path.join(CACHE, "lock-" + config), "w")
    fcntl.flock(lock, fcntl.LOCK_EX)
    try:
        if os.path.exists(os.path.join(out, "DONE")):
            os.utime(out)
            return out, sh, False, 0.0
        t0 = time.time()
        tmp = out + ".tmp%d" % os.getpid()
        shutil.rmtree(tmp, ignore_errors=True)
        os.makedirs(tmp)
        args, need = CONFIGS[config]
        # Persistent target dir for *dependencies only*: fingerprints of the workspace members are
        # deleted so cargo re-runs the wrapper on them every time (a warm target dir would
        # otherwise skip the driver and replay old output).
        target = os.path.join(CACHE, "target-" + config)
        for c in CRATES:
            for fp in glob.glob(os.path.join(target, "debug", ".fingerprint", c + "-*")):
                shutil.rmtree(fp, ignore_errors=True)
        env = _env()
        env["LD_LIBRARY_PATH"] = sysroot_lib() + ":" + env.get("LD_LIBRARY_PATH", "")
        env["LLG_FACTS_OUT"] = tmp
        env["LLG_FACTS_CRATES"] = ",".join(CRATES)
        env["RUSTFLAGS"] = "-Zmir-opt-level=0 -Awarnings -C overflow-checks=on"
        env["RUSTC_WORKSPACE_WRAPPER"] = DRIVER
        env["CARGO_TARGET_DIR"] = target
        env.pop("RUSTC_WRAPPER", None)
        cmd = ["cargo", "+nightly", "check", "--offline"] + args
        r = subprocess.run(cmd, cwd=repo, env=env, capture_output=True, text=True)
        if r.returncode != 0:
            sys.stderr.write(r.stdout[-4000:] + r.stderr[-8000:])
            shutil.rmtree(tmp, ignore_errors=True)
            raise RuntimeError("fact extraction failed: cargo check exit %d" % r.returncode)
        have = set(os.path.basename(p).rsplit("-", 1)[0] for p in glob.glob(os.path.join(tmp, "*.jsonl")))
        missing = [c for c in need if c not in have]
        if missing:
            shutil.rmtree(tmp, ignore_errors=True)
            raise RuntimeError("fact files missing for crates: %s (driver skipped?)" % missing)
        with open(os.path.join(tmp, "DONE"), "w") as f:
            f.write(sh + "\n")
        shutil.rmtree(out, ignore_errors=True)
        os.rename(tmp, out)
        _prune_cache(out)
        dt = time.time() - t0
        if verbose:
            sys.stderr.write("[extract] %s facts for %s in %.1fs\n" % (config, sh, dt))
        return out, sh, True, dt
    finally:
        fcntl.flock(lock, fcntl.LOCK_UN)
        lock.close()


if __name__ == "__main__":
    cfg = sys.argv[1] if len(sys.argv) > 1 else "default"
    print(ensure_facts(cfg))
