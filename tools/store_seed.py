#!/usr/bin/env python3
"""store_seed.py <name> <outdir> <property> <change> <needs> <detected_by_json> [missed_before]"""
import json, os, shutil, sys
name, out, prop, change, needs, det = sys.argv[1:7]
missed = sys.argv[7] if len(sys.argv) > 7 else ""
d = os.path.join("/verif/seeded", name)
os.makedirs(d, exist_ok=True)
for f in os.listdir(out):
    if f == "patch.diff" or f.endswith(".rs") or f == "README.md":
        shutil.copy(os.path.join(out, f), d)
meta = dict(property=prop, source="independent sub-agent given only the property text and a scratch worktree of /repo",
            change=change, needs_to_manifest=needs,
            confirmed=dict(how="tools/confirm_seed.sh <worktree> <outdir> in a scratch worktree under /tmp (removed afterwards)",
                           demo_without_patch="passes", demo_with_patch="fails (rc 101)", baseline_suite_with_patch="125 passing tests, same as unmodified"),
            detected_by=json.loads(det), initially_missed=missed,
            run="git -C /repo apply seeded/%s/patch.diff && ./check %s ; git -C /repo checkout -- ." % (name, prop))
json.dump(meta, open(os.path.join(d, "meta.json"), "w"), indent=1)
print("stored", d)
