#!/bin/bash
# mkseedwt.sh <tag>...: scratch worktrees of /repo HEAD for seeding sub-agents (/tmp/<tag>, /tmp/<tag>-out), with a warm target dir
for T in "$@"; do
  git -C /repo worktree add --detach /tmp/$T HEAD >/dev/null 2>&1 || { echo "worktree $T failed"; continue; }
  mkdir -p /tmp/$T-out
  cp -r /repo/target /tmp/$T/target 2>/dev/null
  echo "ready /tmp/$T"
done
