#!/bin/bash
# confirm_seed.sh <worktree> <outdir> [test-name]
# Confirms a seeded defect in a scratch worktree: demo passes without the patch, fails with it,
# and the 125 baseline tests still pass with it.
set -u
WT=$1; OUT=$2; TN=${3:-seeded_demo}
cd "$WT" || exit 2
git checkout -q -- . ; git status --short | grep -v '^??' && { echo "worktree dirty"; exit 2; }
DEMO=$(ls $OUT/*.rs | head -1)
TD=${TESTDIR:-parser/tests}; PKG=${PKG:-llguidance}; mkdir -p $TD; cp "$DEMO" $TD/$TN.rs
export CARGO_NET_OFFLINE=true
echo "== demo WITHOUT patch"
cargo test --offline -p $PKG --test $TN 2>&1 | grep -E "^test |test result|error" | tail -8
R0=${PIPESTATUS[0]}
git apply "$OUT/patch.diff" || { echo "patch does not apply"; exit 2; }
echo "== demo WITH patch"
cargo test --offline -p $PKG --test $TN 2>&1 | grep -E "^test |test result|error|panicked" | tail -8
R1=${PIPESTATUS[0]}
echo "== baseline suite WITH patch"
rm -f $TD/$TN.rs
cargo test --workspace --no-fail-fast --offline 2>&1 | grep -E "^test .* ok$" | sort > /tmp/seed_pass.txt
N=$(wc -l < /tmp/seed_pass.txt)
git checkout -q -- .
echo "demo without patch rc=$R0 (want 0); with patch rc=$R1 (want !=0); baseline passing tests with patch: $N (want 125)"
