#!/bin/bash
# seed_check2.sh <patch> <ID>...: like seed_check.sh but on a scratch copy of /repo's HEAD (LLG_REPO), so that it can run
# while something else (thorough sweep, refactor regression) is reading /repo's working tree.
P=$1; shift
S=$(mktemp -d /tmp/sck.XXXXXX)
git -C /repo archive HEAD | tar -x -C $S
(cd $S && patch -p1 -s < "$P") || { echo "patch does not apply"; rm -rf $S; exit 2; }
for id in "$@"; do
  (cd /verif && LLG_REPO=$S VERIF_NO_EVIDENCE=1 ./check $id | grep -E "^VIOLATION|rule=|^C[0-9]+:" | head -12)
done
rm -rf $S
