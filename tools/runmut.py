#!/usr/bin/env python3
"""runmut.py <ID> [name...]: apply each mutant patch to /repo's working tree, run ./check ID,
revert. Prints whether the mutant was detected and by which rule."""
import glob, json, os, re, subprocess, sys
VERIF = os.path.dirname(os.path.dirname(os.path.abspath(__file__)))
pid = sys.argv[1]
names = sys.argv[2:]
meta_p = os.path.join(VERIF, "mutants", pid, "expect.json")
meta = json.load(open(meta_p)) if os.path.exists(meta_p) else {}
st = subprocess.run(["git", "-C", "/repo", "status", "--porcelain", "--untracked-files=no"], capture_output=True, text=True).stdout
if st.strip():
    sys.exit("/repo has local modifications; refusing")
ok = True
for p in sorted(glob.glob(os.path.join(VERIF, "mutants", pid, "*.patch"))):
    n = os.path.basename(p)[:-6]
    if names and n not in names:
        continue
    r = subprocess.run(["git", "-C", "/repo", "apply", p], capture_output=True, text=True)
    if r.returncode != 0:
        print("%-40s SKIP (patch does not apply)" % n)
        continue
    try:
        c = subprocess.run([os.path.join(VERIF, "check"), pid], capture_output=True, text=True, cwd=VERIF, env=dict(os.environ, VERIF_NO_EVIDENCE="1"))
    finally:
        subprocess.run(["git", "-C", "/repo", "checkout", "--", "."], check=True)
    rules = re.findall(r"rule=(\S+) instance=(\S+)", c.stdout)
    exp = meta.get(n, "")
    hit = c.returncode == 1 and (not exp or any(exp in r[0] for r in rules))
    print("%-40s %s rc=%d %s" % (n, "DETECTED" if hit else "MISSED  ", c.returncode, rules[:3]))
    if c.returncode == 2:
        print(c.stdout[-1500:], c.stderr[-1500:])
    ok = ok and hit
sys.exit(0 if ok else 1)
