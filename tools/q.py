#!/usr/bin/env python3
"""Fact explorer used while writing rule tables.
  q.py ids <substr>           list body ids containing substr
  q.py callers <id>           who calls id
  q.py calls <id>             resolved callees of id with block/line
  q.py cfg <id>               blocks, successors, statements (compact)
  q.py sw <id>                switch conditions as symbolic expressions
  q.py eff <id>               own field effects
  q.py adt <id>               adt record
"""
import json
import os
import sys

sys.path.insert(0, os.path.dirname(os.path.dirname(os.path.abspath(__file__))))
from rules import extract, facts as F  # noqa


def main():
    d, sh, _, _ = extract.ensure_facts(os.environ.get("CFG", "default"))
    P = F.Program(d)
    cmd = sys.argv[1]
    arg = sys.argv[2] if len(sys.argv) > 2 else ""
    if cmd == "ids":
        for i in sorted(P.bodies):
            if arg in i:
                b = P.bodies[i]
                print(i, b.kind, b.where())
    elif cmd == "callers":
        for c in P.callers_of(arg):
            print(c)
    elif cmd == "calls":
        b = P.bodies[arg]
        for bi, t in b.calls():
            print(bi, b.where(bi), t["f"].get("def") or ("<indirect %s>" % t["f"].get("ty")), "virt" if t["f"].get("virt") else "", t.get("x", ""))
    elif cmd == "cfg":
        b = P.bodies[arg]
        live = b.live_blocks()
        for bi, blk in enumerate(b.blocks):
            if bi not in live:
                continue
            print("bb%d -> %s   [%s]" % (bi, b.succs(bi), b.where(bi)))
            for st in blk["st"]:
                if st["s"] == "assign":
                    print("    %s = %s" % (F.place_str(b, st["p"]), json.dumps(st["r"])[:200]))
                else:
                    print("    ", json.dumps(st)[:200])
            t = blk["term"]
            if t["t"] == "call":
                print("    CALL %s(%s) -> %s" % (t["f"].get("def") or t["f"], ", ".join(F.fmt_expr(b.expr(a)) for a in t["args"]), F.place_str(b, t["dest"])))
            elif t["t"] == "switch":
                print("    SWITCH %s %s else %s" % (F.fmt_expr(b.expr(t["o"])), t["targets"], t["otherwise"]))
            else:
                print("    %s" % json.dumps(t)[:200])
    elif cmd == "sw":
        b = P.bodies[arg]
        for bi, e, tg, ow in b.switch_edges():
            print("bb%d %s: %s  targets=%s otherwise=%s" % (bi, b.where(bi), F.fmt_expr(e), tg, ow))
    elif cmd == "eff":
        b = P.bodies[arg]
        w, m, r = P.own_effects(b)
        print("writes:", sorted(w))
        print("mutcalls:", sorted(m))
        print("reads:", sorted(r))
    elif cmd == "adt":
        print(json.dumps(P.adts[arg], indent=1)[:6000])
    elif cmd == "stat":
        print(len(P.bodies), P.crates, len(P.adts), len(P.statics))


if __name__ == "__main__":
    main()
