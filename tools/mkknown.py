#!/usr/bin/env python3
"""mkknown.py: freeze the set of function ids the rule tables were written against (rules/known_fns.txt).
Run deliberately, on the pinned tree only; functions not listed here are treated as transparent helpers
(rules/inline.py)."""
import os, sys
sys.path.insert(0, os.path.dirname(os.path.dirname(os.path.abspath(__file__))))
from rules import extract, facts as F, selftest

ids = set()
crates = set()
for cfg in ("default", "minimal"):
    d, _, _, _ = extract.ensure_facts(cfg)
    P = F.Program(d, inline=False)
    for i, b in P.bodies.items():
        ids.add(i)
        crates.add(b.crate)
fd = selftest.fixture_facts()
P = F.Program(fd, inline=False)
for i, b in P.bodies.items():
    crates.add(b.crate)
    if "inl_helper" not in i and not ("unk_closure" in i and "{closure" in i):
        ids.add(i)
out = os.path.join(os.path.dirname(os.path.dirname(os.path.abspath(__file__))), "rules", "known_fns.txt")
with open(out, "w") as f:
    f.write("# function ids of the pinned tree (both feature configurations) and of the fixture crate\n")
    for c in sorted(crates):
        f.write("#crate %s\n" % c)
    for i in sorted(ids):
        f.write(i + "\n")
print(len(ids), "ids,", sorted(crates))
