#!/bin/bash
# refactor_check.sh <patch>...: for each behaviour-preserving patch: copy /repo to a scratch dir, apply the patch,
# run ALL quick checks against the copy (LLG_REPO), delete the copy. Any VIOLATION here is a false alarm of the
# machinery (the patches do not change behaviour).
IDS="C01 C02 C03 C06 C07 C08 C09 C10 C11 C12 C13 C14 C15 C16 C17 C18 C19 C20"
for P in "$@"; do
  echo "##### $P"
  S=$(mktemp -d /tmp/rfc.XXXXXX)
  git -C /repo archive HEAD | tar -x -C $S   # committed HEAD, not the working tree (mutation tools may be touching it)
  (cd $S && patch -p1 -s < "$P") || { echo "does not apply"; rm -rf $S; continue; }
  # warm the fact cache once, then evaluate the rules in parallel
  (cd /verif && LLG_REPO=$S python3 -c "
import sys; sys.path.insert(0,'.')
from rules import extract
print('[extract]', extract.ensure_facts('default')[1:])" 2>&1 | grep -v conda)
  echo $IDS | tr ' ' '\n' | (cd /verif && LLG_REPO=$S VERIF_NO_EVIDENCE=1 xargs -P 9 -I{} sh -c './check {} 2>&1 | grep -E "^VIOLATION|rule=|CHECKER|what=" | head -16 | sed "s/^/[{}] /"')
  rm -rf $S
done
