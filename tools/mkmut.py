#!/usr/bin/env python3
"""mkmut.py <ID> <name> <repo-relative-file> <old> <new> [expect-rule]
Creates mutants/<ID>/<name>.patch by replacing exactly one occurrence of <old> in the file
(in /repo's working tree, reverted afterwards)."""
import json, os, subprocess, sys
VERIF = os.path.dirname(os.path.dirname(os.path.abspath(__file__)))
pid, name, rel, old, new = sys.argv[1:6]
expect = sys.argv[6] if len(sys.argv) > 6 else ""
p = os.path.join("/repo", rel)
s = open(p).read()
if s.count(old) != 1:
    sys.exit("expected exactly one occurrence, found %d" % s.count(old))
open(p, "w").write(s.replace(old, new))
d = subprocess.run(["git", "-C", "/repo", "diff"], capture_output=True, text=True).stdout
subprocess.run(["git", "-C", "/repo", "checkout", "--", rel], check=True)
os.makedirs(os.path.join(VERIF, "mutants", pid), exist_ok=True)
open(os.path.join(VERIF, "mutants", pid, name + ".patch"), "w").write(d)
meta_p = os.path.join(VERIF, "mutants", pid, "expect.json")
meta = json.load(open(meta_p)) if os.path.exists(meta_p) else {}
meta[name] = expect
json.dump(meta, open(meta_p, "w"), indent=1, sort_keys=True)
print("wrote mutants/%s/%s.patch (%d lines)" % (pid, name, d.count("\n")))
