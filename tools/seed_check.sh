#!/bin/bash
# seed_check.sh <patch> <ID>...: apply patch to /repo, run the given checks, revert.
P=$1; shift
cd /repo && git status --porcelain --untracked-files=no | grep -q . && { echo "/repo dirty"; exit 2; }
git -C /repo apply "$P" || exit 2
for id in "$@"; do
  (cd /verif && VERIF_NO_EVIDENCE=1 ./check $id | grep -E "^VIOLATION|rule=|^C[0-9]+:" | head -12)
done
git -C /repo checkout -- .
