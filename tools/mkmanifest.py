#!/usr/bin/env python3
"""Regenerates MANIFEST.json from the rule modules present under rules/props."""
import importlib, json, os, sys
VERIF = os.path.dirname(os.path.dirname(os.path.abspath(__file__)))
sys.path.insert(0, VERIF)
props = [json.loads(l) for l in open(os.path.join(VERIF, "properties.jsonl"))]
NA = {}
checks, na = [], []
for p in props:
    pid = p["id"]
    try:
        mod = importlib.import_module("rules.props." + pid.lower())
    except ModuleNotFoundError:
        na.append(dict(property_id=pid, reason=NA.get(pid, "check not built yet (static rules designed in DESIGN.md section 4; in progress)")))
        continue
    meta = mod.META
    checks.append(dict(
        property_id=pid,
        quick_cmd="./check %s" % pid,
        thorough_cmd="./check %s --tier thorough" % pid,
        evidence_file="/verif/evidence/%s.json" % pid,
        replay_cmd_template="./check %s --explain {path}" % pid,
        engine="llg-facts+rules",
        level_claimed=dict(
            category="other",
            text="Static analysis (MIR dataflow / dominance / call-graph / effect rules) deciding structural clauses that are necessary conditions of the property, exhaustively over every site of the analysed program; the behaviour as a whole is NOT decided. " + meta["explanation"] + " Not decided: " + meta.get("not_decided", ""),
            design_ref="DESIGN.md section 4, " + pid,
        ),
        level_note="Trusted: rustc nightly front-end/MIR for the analysed feature configuration(s), the llg-facts exporter, the rule tables (anchors, allowlists with one-line reasons) in rules/props/%s.py; external crates (derivre, serde_json, rayon, tokenizers) by summary." % pid.lower(),
        technique=meta.get("technique", "static analysis: custom MIR rules (dominance/cut-set guards, must-pass-through, transitive field effects, who-may-call) over rustc_private facts"),
    ))
m = dict(
    version=1,
    setup_cmd="./setup.sh",
    hooks=dict(guard="llguidance_verif", enable="none needed: checks analyse the unmodified build (no instrumentation)",
               baseline_off_cmd="cd /repo && cargo test --workspace --no-fail-fast --offline", source_commits=[], add_only=True),
    engines=[
        dict(name="llg-facts", path="driver/", serves_properties=[c["property_id"] for c in checks],
             kind_free_text="rustc_private driver exporting type-checked MIR, resolved callees, ADT layouts and statics as JSON facts (injected with RUSTC_WORKSPACE_WRAPPER under cargo +nightly check)"),
        dict(name="rules", path="rules/", serves_properties=[c["property_id"] for c in checks],
             kind_free_text="Python rule evaluators: CFG dominance/cut-sets, must-pass-through, call graph with CHA, transitive field effects, unit dataflow, SCC recursion guards, table agreement"),
    ],
    checks=checks,
    notes="Technique family: static analysis only. Every check inspects /repo's current source (facts re-extracted when the content hash changes). See DESIGN.md.",
    not_applicable=na,
)
json.dump(m, open(os.path.join(VERIF, "MANIFEST.json"), "w"), indent=1)
print("claimed:", [c["property_id"] for c in checks], "n/a:", [n["property_id"] for n in na])
